"""Cases for the ctx helper models (C39), pickling (C40) and float conversion (C09)."""
from fractions import Fraction
import math, pickle, copy, struct
from common import *
import gen
from mpfcases import Case, r2i, V, fv, fin, int_like

import mpmath
from mpmath import mp
import mpmath.libmp.libmpf as L


def enc_x(v):
    if isinstance(v, int): return [0, v]
    if v == mp.ninf: return [1, 0]
    if v == mp.inf: return [2, 0]
    return [3, 0]


def api(f):
    def thunk():
        try:
            return [0] + f()
        except Exception as e:
            return enc_exc(e)
    return thunk


def val_any(rng, special_p=0.12):
    t = gen.value(rng, 53, special_p)
    if rng.random() < 0.5: t = int_like(rng, 53)
    return t


def c_mag(rng, fn):
    if fn == "mpf_mag":
        t = val_any(rng)
        ex = None
        if fin(t) and t[1] and abs(t[2]) < 10**5: ex = ("mag", abs(V(t)))
        return Case(fn, list(t), api(lambda: enc_x(mp.mag(mp.make_mpf(t)))), ex, rounded=False, ret_mpf=False)
    if fn == "mpc_mag":
        a = val_any(rng); b = val_any(rng)
        if rng.random() < 0.2: b = gen.FZERO
        if rng.random() < 0.1: a = gen.FZERO
        ex = None
        if fv(a) and fv(b) and (a[1] or b[1]):
            x, y = (V(a) if a[1] else 0), (V(b) if b[1] else 0)
            ex = ("mag2", x * x + y * y)
        return Case(fn, list(a) + list(b), api(lambda: enc_x(mp.mag(mp.make_mpc((a, b))))), ex, rounded=False, ret_mpf=False)
    if fn == "int_mag":
        n = gen.small_int(rng)
        return Case(fn, [n], api(lambda: enc_x(mp.mag(n))), ("mag", Fraction(abs(n))) if n else None, rounded=False, ret_mpf=False)
    p = gen.small_int(rng); q = abs(gen.small_int(rng)) or 3
    from mpmath.rational import mpq
    ex = ("mag", abs(Fraction(p, q))) if p else None
    g = math.gcd(p, q) or 1
    return Case(fn, [p // g, q // g], api(lambda: enc_x(mp.mag(mpq(p, q)))), ex, rounded=False, ret_mpf=False)


def c_nint(rng, fn):
    if fn == "nint_distance_mpf":
        t = val_any(rng)
        if fin(t) and t[1] and t[2] > 3000: t = (t[0], t[1], t[2] % 3000, t[3])
        ex = ("nintd", V(t) if t[1] else Fraction(0)) if fv(t) else None
        def f():
            n, d = mp.nint_distance(mp.make_mpf(t)); return [int(n)] + enc_x(d)
        return Case(fn, list(t), api(f), ex, rounded=False, ret_mpf=False)
    if fn == "nint_distance_mpc":
        a = val_any(rng); b = val_any(rng)
        if fin(a) and a[1] and a[2] > 3000: a = (a[0], a[1], a[2] % 3000, a[3])
        if rng.random() < 0.3: b = gen.FZERO
        def f():
            n, d = mp.nint_distance(mp.make_mpc((a, b))); return [int(n)] + enc_x(d)
        return Case(fn, list(a) + list(b), api(f), None, rounded=False, ret_mpf=False)
    from mpmath.rational import mpq
    p = gen.small_int(rng); q = abs(gen.small_int(rng)) or 2
    if rng.random() < 0.3: q = 2
    g = math.gcd(p, q) or 1
    def f():
        n, d = mp.nint_distance(mpq(p, q)); return [int(n)] + enc_x(d)
    return Case(fn, [p // g, q // g], api(f), ("nintd", Fraction(p, q)), rounded=False, ret_mpf=False)


def c_class(rng, fn):
    t = val_any(rng, special_p=0.3)
    x = mp.make_mpf(t)
    if fn == "mpf_isint":
        ex = ("bool", (V(t) if t[1] else Fraction(0)).denominator == 1) if fv(t) else ("bool", False) if is_special(t) else None
        return Case(fn, list(t), api(lambda: [int(mp.isint(x))]), ex, rounded=False, ret_mpf=False)
    if fn == "mpf_isnpint":
        ex = None
        if fv(t):
            v = V(t) if t[1] else Fraction(0); ex = ("bool", v.denominator == 1 and v <= 0)
        return Case(fn, list(t), api(lambda: [int(bool(mp.isnpint(x)))]), ex, rounded=False, ret_mpf=False)
    if fn == "mpc_isint":
        u = val_any(rng, special_p=0.1)
        if rng.random() < 0.4: u = gen.FZERO
        g = rng.randrange(2)
        z = mp.make_mpc((t, u))
        return Case(fn, list(t) + list(u) + [g], api(lambda: [int(bool(mp.isint(z, gaussian=bool(g))))]), None, rounded=False, ret_mpf=False)
    want = [int(t == gen.FNAN), int(t in (gen.FINF, gen.FNINF)), int(bool(t[1])), int(not is_special(t))]
    return Case(fn, list(t), api(lambda: [int(bool(mp.isnan(x))), int(bool(mp.isinf(x))), int(bool(mp.isnormal(x))), int(bool(mp.isfinite(x)))]),
                ("list", want), rounded=False, ret_mpf=False)


def c_shiftfrexp(rng, fn):
    t = val_any(rng, special_p=0.15)
    x = mp.make_mpf(t)
    if fn == "mpf_shift":
        n = rng.randint(-10**5, 10**5)
        ex = ("v0", V(t) * Fraction(2) ** n if t[1] else Fraction(0)) if fv(t) and abs(n) < 5000 else None
        return Case(fn, list(t) + [n], api(lambda: list(mp.ldexp(x, n)._mpf_)), ex, 0, 'n')
    def f():
        y, e = mp.frexp(x); return list(y._mpf_) + [int(e)]
    return Case(fn, list(t), api(f), None, rounded=False, ret_mpf=False)


def c_pickle(rng, fn):
    t = gen.value(rng, 53, 0.15)
    if rng.random() < 0.05: t = gen.norm(rng.randrange(2), gen.mant(rng, rng.randint(3000, 20000)), rng.randint(-10**6, 10**6))
    proto = rng.randint(0, pickle.HIGHEST_PROTOCOL)
    def f():
        x = mp.make_mpf(t)
        y = pickle.loads(pickle.dumps(x, proto))
        if type(y) is not type(x): return [9]
        hx = L.to_pickable(t)[1]
        return list(y._mpf_) + [int(c, 16) for c in hx]
    return Case(fn, list(t), api(f), ("tuple", t), rounded=False, ret_mpf=False)


def f2parts(x):
    m, e = math.frexp(x)
    return int(m * (1 << 53)), e


EDGE_DOUBLES = [1.7976931348623157e308, -1.7976931348623157e308, 2.2250738585072014e-308, -2.2250738585072014e-308,
                5e-324, -5e-324, 2.225073858507201e-308, 1.7976931348623155e308, 0.0, -0.0, 1.0, -1.0, 0.1]


def rand_double(rng):
    if rng.random() < 0.08:
        return rng.choice(EDGE_DOUBLES)
    k = rng.randrange(8)
    if k == 0: bits = rng.getrandbits(64)
    elif k == 1: bits = rng.getrandbits(52) | (rng.randrange(2) << 63)                       # subnormal
    elif k == 2: bits = (rng.choice([1, 2, 1022, 1023, 1024, 2045, 2046]) << 52) | rng.getrandbits(52)
    elif k == 3: bits = (rng.randint(1, 2046) << 52) | rng.choice([0, 1, (1 << 52) - 1])
    elif k == 4: bits = (2047 << 52) | rng.choice([0, 1, 1 << 51]) | (rng.randrange(2) << 63)  # inf/nan
    elif k == 5: bits = rng.randrange(2) << 63
    else: bits = (rng.randint(900, 1150) << 52) | rng.getrandbits(52) | (rng.randrange(2) << 63)
    return struct.unpack("<d", struct.pack("<Q", bits))[0]


def c_float(rng, fn):
    if fn == "from_float_parts":
        x = rand_double(rng)
        while x != x or x in (math.inf, -math.inf):
            x = rand_double(rng)
        prec = rng.choice([53, 53, 53, 24, 10, 1, 64, 100, 0]); rnd = rng.choice(RND)
        m, e = f2parts(x)
        ex = ("v", Fraction(x)) if prec else ("v0", Fraction(x))
        return Case(fn, [m, e, prec or 0, r2i(rnd)], lambda: call_impl(L.from_float, x, prec or 53, rnd) if prec else call_impl(lambda: mp.mpf(x)._mpf_),
                    ex, prec or 53 if prec else 53, rnd)
    # to_float: values around binade edges and halfway points, any bit length
    k = rng.randrange(5)
    if k == 0:
        t = gen.finite(rng, 53); t = (t[0], t[1], t[2] % 2200 - 1100 - t[3], t[3])
    elif k == 1:   # halfway between doubles / just off
        m = (1 << 52) | rng.getrandbits(52)
        ext = rng.randint(1, 80)
        mm = (m << ext) + (1 << (ext - 1)) + rng.choice([0, 0, 1, -1])
        t = gen.norm(rng.randrange(2), mm, rng.randint(-1070, 960) - ext)
    elif k == 2:   # near overflow
        t = gen.norm(rng.randrange(2), (1 << 60) - rng.randint(0, 300), 964 + rng.randint(-2, 2))
    elif k == 3:
        t = gen.norm(rng.randrange(2), gen.mant(rng, rng.randint(54, 400)), rng.randint(-1400, 700))
    else:
        t = gen.norm(rng.randrange(2), gen.mant(rng, rng.randint(1, 53)), rng.randint(-1074, 971))
    rnd = rng.choice(RND)
    v = V(t)
    in_model_range = Fraction(2) ** -1022 <= abs(v) < Fraction(2) ** 1023
    def f():
        x = mp.make_mpf(t)
        r0 = mp._prec_rounding[1]
        mp._prec_rounding[1] = rnd
        try:
            d = float(x)
        finally:
            mp._prec_rounding[1] = r0
        if d != d: return [7]
        if d in (math.inf, -math.inf): return [8, int(d > 0)]
        if in_model_range:
            tt = L.from_float(d)
            return [-tt[1] if tt[0] else tt[1], tt[2]]
        return [5] + list(f2parts(d))
    return Case("to_float_parts", (list(t) + [r2i(rnd)]) if in_model_range else None, api(f),
                ("tofloat", t, rnd, in_model_range), rounded=False, ret_mpf=False, desc=("to_float", t, rnd))


GENS = {"mpf_mag": c_mag, "mpc_mag": c_mag, "int_mag": c_mag, "mpq_mag": c_mag,
        "nint_distance_mpf": c_nint, "nint_distance_mpc": c_nint, "nint_distance_mpq": c_nint,
        "mpf_isint": c_class, "mpf_isnpint": c_class, "mpc_isint": c_class, "mpf_class": c_class,
        "mpf_shift": c_shiftfrexp, "mpf_frexp": c_shiftfrexp, "pickle_roundtrip": c_pickle,
        "from_float_parts": c_float, "to_float_parts": c_float}


def make_cases(rng, fn, n):
    return [GENS[fn](rng, fn) for _ in range(n)]


def ceil_log2(x):
    """ceil(log2 x) for positive Fraction x"""
    e = x.numerator.bit_length() - x.denominator.bit_length()
    while Fraction(2) ** e < x: e += 1
    while Fraction(2) ** (e - 1) >= x: e -= 1
    return e


def spec_check(case, out):
    bad = []
    if out[0] != 0 or case.exact is None:
        return bad
    p = out[1:]
    kind = case.exact[0]
    if kind == "mag":
        x = case.exact[1]
        if p[0] != 0: return [("C39", "mag of a finite nonzero number is not an integer")]
        m = p[1]
        if x > Fraction(2) ** m: bad.append(("C39", "|x| > 2^mag"))
        if m > ceil_log2(x) + 2: bad.append(("C39", "mag more than 2 above optimal"))
    elif kind == "mag2":
        x2 = case.exact[1]
        if p[0] != 0: return [("C39", "mag of a finite nonzero complex number is not an integer")]
        m = p[1]
        if x2 > Fraction(4) ** m: bad.append(("C39", "|z| > 2^mag"))
        opt2 = ceil_log2(x2)          # = ceil(2 log2|z|)
        if 2 * m > opt2 + 5: bad.append(("C39", "complex mag more than 2 above optimal"))
    elif kind == "nintd":
        x = case.exact[1]
        n = p[0]; tag, d = p[1], p[2]
        fl = math.floor(x); fr = x - fl
        cands = {fl} if fr < Fraction(1, 2) else ({fl + 1} if fr > Fraction(1, 2) else {fl, fl + 1})
        if n not in cands: bad.append(("C39", "nint_distance: n is not a nearest integer"))
        diff = abs(x - n)
        if diff == 0:
            if tag != 1: bad.append(("C39", "distance of an integer is not -inf"))
        else:
            if tag != 0: bad.append(("C39", "distance of a non-integer is not finite"))
            elif not (Fraction(2) ** (d - 2) <= diff <= Fraction(2) ** (d + 1)):
                bad.append(("C39", "|x-n| is not close to 2^d"))
    elif kind == "bool":
        if bool(p[0]) != case.exact[1]: bad.append(("C39", "classification predicate wrong"))
    elif kind == "list":
        if list(p) != case.exact[1]: bad.append(("C39", "isnan/isinf/isnormal/isfinite wrong"))
    elif kind == "v0":
        t = tuple(p[:4])
        if not (not is_special(t) and (V(t) if t[1] else 0) == case.exact[1] and canonical(t)):
            bad.append(("C39" if case.fn == "mpf_shift" else "C09", "value not preserved exactly"))
    elif kind == "tuple":
        if tuple(p[:4]) != tuple(case.exact[1]): bad.append(("C40", "pickle round trip changed the representation"))
    elif kind == "v":
        t = tuple(p[:4])
        if not value_eq_round(t, case.exact[1], case.prec, case.rnd): bad.append(("C09", "from_float not correctly rounded/exact"))
    elif kind == "tofloat":
        t, rnd, inrange = case.exact[1], case.exact[2], case.exact[3]
        v = V(t)
        DBL_MAX = Fraction((1 << 53) - 1) * Fraction(2) ** 971
        if abs(v) >= Fraction(2) ** 1024:
            if p[0] != 8: bad.append(("C09", "no infinity beyond the double range"))
        elif inrange:
            r = round_fraction(v, 53, rnd)
            want = Fraction(r[1]) * Fraction(2) ** r[2] * (-1 if r[0] else 1)
            if len(p) != 2: bad.append(("C09", "float(x) not finite in the normal range"))
            else:
                got = Fraction(p[0]) * Fraction(2) ** p[1]
                if got != want: bad.append(("C09", "float(x) is not the correctly rounded double"))
    return bad
