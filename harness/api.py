"""Public-API level cases: operators and f* functions on mp context objects, translated to the raw
model function they must agree with (all are correctly rounded functions of their exact operands)."""
from fractions import Fraction
import math, random
from common import *
import gen
from mpfcases import Case, r2i, V, fv, fin


def fresh_mp():
    import mpmath
    return mpmath.mp


def mk(mp, t):
    return mp.make_mpf(tuple(t))


def operand(rng, mp, prec):
    """Returns (python object, raw tuple of its exact value, kind)"""
    import mpmath.libmp.libmpf as L
    k = rng.randrange(6)
    if k == 0:
        n = gen.small_int(rng)
        return n, L.from_int(n), "int"
    if k == 1:
        f = rng.choice([0.0, 1.5, -2.25, 1e300, 5e-324, 2.0**-1074 * 3, 1e-310, float(rng.getrandbits(53)) * 2.0 ** rng.randint(-600, 500),
                        rng.uniform(-10, 10), float("inf"), float("-inf"), float("nan")])
        return f, L.from_float(f), "float"
    t = gen.value(rng, prec, special_p=0.05)
    if fin(t) and t[1]:
        t = (t[0], t[1], t[2] % 4000 - 2000, t[3])
    return mk(mp, t), t, "mpf"


def api_cases(rng, n):
    """Binary operators with mixed operands under random context precision/rounding."""
    import mpmath
    import mpmath.libmp.libmpf as L
    mp = mpmath.mp
    cases = []
    ops = [("mpf_add", lambda a, b: a + b), ("mpf_sub", lambda a, b: a - b), ("mpf_mul", lambda a, b: a * b),
           ("mpf_div", lambda a, b: a / b), ("mpf_mod", lambda a, b: a % b)]
    for _ in range(n):
        prec = rng.choice([1, 2, 5, 10, 24, 53, 64, 100, 113, 200])
        rnd = rng.choice(RND)
        fn, pyop = rng.choice(ops)
        a, ta, ka = operand(rng, mp, prec)
        b, tb, kb = operand(rng, mp, prec)
        if ka != "mpf" and kb != "mpf":
            a, ta, ka = mk(mp, gen.finite(rng, prec, bits=rng.randint(1, 120))), None, "mpf"
            ta = a._mpf_
        if fn == "mpf_mod" and fin(ta) and fin(tb) and abs(ta[2] - tb[2]) > 3000:   # the model shifts bit by bit
            fn, pyop = ops[0]
        def thunk(a=a, b=b, prec=prec, rnd=rnd, pyop=pyop):
            p0, r0 = mp.prec, mp._prec_rounding[1]
            try:
                mp.prec = prec
                mp._prec_rounding[1] = rnd
                try:
                    v = pyop(a, b)
                    if not hasattr(v, "_mpf_"):
                        return [3, 0]          # not an mpf (NotImplemented / complex): outside this check
                    return [0] + list(v._mpf_)
                except Exception as e:
                    return enc_exc(e)
            finally:
                mp._prec_rounding[1] = r0
                mp.prec = p0
        exact = None
        if fv(ta) and fv(tb):
            x, y = V(ta), V(tb)
            if fn == "mpf_add": exact = ("v", x + y)
            elif fn == "mpf_sub": exact = ("v", x - y)
            elif fn == "mpf_mul": exact = ("v", x * y)
            elif fn == "mpf_div" and y != 0: exact = ("v", x / y)
            elif fn == "mpf_mod" and y != 0: exact = ("v", x - y * math.floor(x / y))
        c = Case(fn, list(ta) + list(tb) + [prec, r2i(rnd)], thunk, exact, prec, rnd,
                 desc="operator %s on %s,%s" % (fn, ka, kb))
        cases.append(c)
    return cases


def fcases(rng, n):
    """fadd/fsub/fmul/fdiv/fneg with prec/dps/rounding/exact keywords, fsum/fdot, mpf() construction."""
    import mpmath
    import mpmath.libmp.libmpf as L
    mp = mpmath.mp
    cases = []
    for _ in range(n):
        kind = rng.choice(["fadd", "fsub", "fmul", "fdiv", "fneg", "ctor_int", "ctor_float", "ctor_mpf", "ctor_frac", "fsum", "fdot", "fabs", "sqrt"])
        ctxprec = rng.choice([10, 53, 80])
        a, ta, ka = operand(rng, mp, 53)
        b, tb, kb = operand(rng, mp, 53)
        kw = {}
        prec = ctxprec; rnd = 'n'
        mode = rng.randrange(5)
        if mode == 0:
            prec = rng.choice([1, 3, 20, 53, 150]); kw["prec"] = prec
        elif mode == 1:
            d = rng.choice([1, 5, 15, 30]); kw["dps"] = d; prec = L.dps_to_prec(d)
        elif mode == 2 and kind in ("fadd", "fsub", "fmul", "fneg"):
            kw["exact"] = True; prec = 0
        elif mode == 3 and kind in ("fadd", "fsub", "fmul", "fneg"):
            kw["prec"] = mpmath.inf; prec = 0
        if rng.random() < 0.7:
            rnd = rng.choice(RND); kw["rounding"] = rnd
        if prec == 0 and fin(ta) and fin(tb) and ta[1] and tb[1] and abs(ta[2] - tb[2]) > 5000:
            kw.pop("exact", None); kw.pop("prec", None); prec = ctxprec
        fn = None; margs = None; exact = None; call = None
        if kind in ("fadd", "fsub", "fmul", "fdiv"):
            fn = {"fadd": "mpf_add", "fsub": "mpf_sub", "fmul": "mpf_mul", "fdiv": "mpf_div"}[kind]
            margs = list(ta) + list(tb) + [prec, r2i(rnd)]
            f = getattr(mp, kind)
            call = lambda f=f, a=a, b=b, kw=kw: f(a, b, **kw)
            if fv(ta) and fv(tb):
                x, y = V(ta), V(tb)
                exact = {"fadd": ("v", x + y), "fsub": ("v", x - y), "fmul": ("v", x * y),
                         "fdiv": ("v", x / y) if y != 0 else None}[kind]
        elif kind == "fneg":
            fn = "mpf_neg"; margs = list(ta) + [prec, r2i(rnd)]
            call = lambda a=a, kw=kw: mp.fneg(a, **kw)
            if fv(ta): exact = ("v", -V(ta))
        elif kind == "fabs":
            fn = "mpf_abs"; margs = list(ta) + [ctxprec, 0]; prec = ctxprec; rnd = 'n'; kw = {}
            call = lambda a=a: abs(mp.mpf(a))
            if ka != "mpf": continue
            if fv(ta): exact = ("v", abs(V(ta)))
        elif kind == "sqrt":
            if ka != "mpf" or ta[0] == 1: continue
            fn = "mpf_sqrt"; margs = list(ta) + [prec, r2i(rnd)]
            kw.pop("exact", None)
            if prec == 0: continue
            call = lambda a=a, kw=kw: mp.sqrt(a, **kw)
            if fv(ta): exact = ("sqrt", V(ta))
        elif kind == "ctor_int":
            nint = gen.small_int(rng)
            fn = "from_int"; margs = [nint, prec, r2i(rnd)]
            kw.pop("exact", None)
            if prec == 0: continue
            call = lambda nint=nint, kw=kw: mp.mpf(nint, **kw)
            exact = ("v", Fraction(nint))
        elif kind == "ctor_float":
            if ka != "float" or prec == 0: continue
            fn = "mpf_pos"; margs = list(ta) + [prec, r2i(rnd)]
            kw.pop("exact", None)
            call = lambda a=a, kw=kw: mp.mpf(a, **kw)
            if fv(ta): exact = ("v", V(ta))
        elif kind == "ctor_mpf":
            if ka != "mpf" or prec == 0: continue
            fn = "mpf_pos"; margs = list(ta) + [prec, r2i(rnd)]
            kw.pop("exact", None)
            call = lambda a=a, kw=kw: mp.mpf(a, **kw)
            if fv(ta): exact = ("v", V(ta))
        elif kind == "ctor_frac":
            p = gen.small_int(rng); q = gen.small_int(rng) or 7
            fn = "from_rational"; kw = {}
            prec = ctxprec; rnd = rng.choice(RND)
            margs = [p, q, prec, r2i(rnd)]
            fr = Fraction(p, q)
            def call(fr=fr, rnd=rnd):
                r0 = mp._prec_rounding[1]
                mp._prec_rounding[1] = rnd
                try:
                    return rng_choice_conv(fr)
                finally:
                    mp._prec_rounding[1] = r0
            sel = rng.randrange(2)
            def rng_choice_conv(fr, sel=sel):
                return mp.convert(fr) if sel == 0 else (mp.mpf(0) + fr if False else mp.mpmathify(fr))
            margs = [fr.numerator, fr.denominator, prec, r2i(rnd)]
            exact = ("v", fr)
        elif kind in ("fsum", "fdot"):
            p = ctxprec if "prec" not in kw and "dps" not in kw else prec
            kw = {}
            prec = ctxprec; rnd = 'n'
            k = rng.randint(0, 6)
            base = rng.randint(-100, 100)
            xs = []
            for _i in range(k):
                bb = rng.randint(1, prec)
                xs.append(gen.norm(rng.randrange(2), gen.mant(rng, bb), base + rng.randint(0, max(0, prec - 2)) - bb))
            if kind == "fsum":
                fn = "mpf_sum"
                margs = [prec, 0, 0] + [z for x in xs for z in x]
                objs = [mk(mp, x) for x in xs]
                call = lambda objs=objs: mp.fsum(objs)
                exact = ("sum", sum((V(x) for x in xs), Fraction(0)), 1)
            else:
                # fdot: exact products then one rounding; operands with <= prec/2 bits keep the side condition
                ys = []
                for x in xs:
                    bb = rng.randint(1, 20)
                    ys.append(gen.norm(rng.randrange(2), gen.mant(rng, bb), rng.randint(-3, 3)))
                prods = [L.mpf_mul(x, y) for x, y in zip(xs, ys)]
                fn = "mpf_sum"
                margs = [prec, 0, 0] + [z for x in prods for z in x]
                A = [mk(mp, x) for x in xs]; B = [mk(mp, y) for y in ys]
                call = lambda A=A, B=B: mp.fdot(A, B)
                exact = ("sum", sum((V(x) * V(y) for x, y in zip(xs, ys)), Fraction(0)), 0)
        if fn is None:
            continue
        def thunk(call=call, ctxprec=ctxprec):
            p0 = mp.prec
            try:
                mp.prec = ctxprec
                try:
                    v = call()
                    if not hasattr(v, "_mpf_"):
                        return [3, 0]
                    return [0] + list(v._mpf_)
                except Exception as e:
                    return enc_exc(e)
            finally:
                mp.prec = p0
        cases.append(Case(fn, margs, thunk, exact, prec, rnd, desc="%s %s" % (kind, sorted(kw))))
    return cases
