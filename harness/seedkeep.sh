#!/bin/sh
# usage: seedkeep.sh <PROPERTY> <worktree> <mutdir> <name>
# Confirms (clean demo passes, patched demo fails, patched test suite passes) in the scratch worktree, then
# runs the property's quick check against the change applied to /repo (undone straight afterwards) and stores
# everything under /verif/seeded/<name>/.
P=$1; WT=$2; D=$3; NAME=$4
OUT=/verif/seeded/$NAME
cd $WT && git checkout -q -- . 
PYTHONPATH=$WT MPMATH_NOGMPY=1 /venv/bin/python $D/demo.py > /tmp/sk_clean.out 2>&1; rc_clean=$?
git apply $D/patch.diff || { echo "$NAME: patch does not apply"; exit 2; }
PYTHONPATH=$WT MPMATH_NOGMPY=1 /venv/bin/python $D/demo.py > /tmp/sk_mut.out 2>&1; rc_mut=$?
PYTHONPATH=$WT /venv/bin/python -m pytest -q -p no:cacheprovider --timeout=900 -x --ignore=_out > /tmp/sk_tests.out 2>&1; rc_tests=$?
tests=$(tail -1 /tmp/sk_tests.out)
git checkout -q -- .
if [ $rc_clean -ne 0 ] || [ $rc_mut -eq 0 ] || [ $rc_tests -ne 0 ]; then
  echo "$NAME: NOT CONFIRMED clean=$rc_clean mutated=$rc_mut tests=$rc_tests ($tests)"; exit 1; fi
cd /repo && git apply $D/patch.diff || { echo "$NAME: patch does not apply to /repo"; exit 2; }
cd /verif && ./check $P --tier quick > /tmp/sk_check.out 2>&1; rc_check=$?
cd /repo && git checkout -q -- .
nv=$(grep -c '^VIOLATION' /tmp/sk_check.out)
mkdir -p $OUT && cp $D/patch.diff $D/demo.py $OUT/
/venv/bin/python - "$D/meta.json" "$OUT/meta.json" "$P" "$rc_check" "$nv" "$tests" <<'PY'
import json,sys
src,dst,P,rc,nv,tests=sys.argv[1:]
try: m=json.load(open(src))
except Exception: m={}
m.update({"property":P,"confirmed":{"demo_on_clean_tree":"exit 0","demo_with_change":"exit 1","existing_test_suite_with_change":tests},
          "check_run":"git -C /repo apply patch.diff && ./check %s --tier quick; git -C /repo checkout -- ."%P,
          "check_exit":int(rc),"violation_lines":int(nv),"detected":int(rc)==1 and int(nv)>0})
json.dump(m,open(dst,"w"),indent=1)
PY
echo "$NAME: confirmed; check rc=$rc_check violations=$nv"
