"""Source drift of the modelled routines.

The Gallina model is hand-written; its tie to /repo is the correspondence run.  This module adds a structural cross-check of that tie:
every modelled Python function is parsed with `ast`, normalised (docstrings, comments, line numbers and local formatting drop out) and
hashed; the hashes are compared with harness/model_fingerprints.json, the state of the sources the model was last reconciled with.
A changed function is not an alarm (a harmless rewrite changes the hash too): the check reports it in its evidence and spends three
times the usual number of correspondence cases on the functions that depend on it.
`python harness/drift.py --update` rewrites the reference after the model has been reconciled with the sources."""
import ast, hashlib, json, os, sys

VERIF = os.path.dirname(os.path.dirname(os.path.abspath(__file__)))
REPO = os.environ.get("VERIF_REPO", "/repo")
REF = os.path.join(VERIF, "harness", "model_fingerprints.json")

# model function (name used by the correspondence) -> python functions it transliterates (module path relative to mpmath/, names)
MODELLED = {
    "libmp/libmpf.py": ["_normalize", "_normalize1", "mpf_min_max", "from_man_exp", "from_int", "from_float", "to_float", "from_rational", "to_int", "mpf_round_int",
                        "mpf_floor", "mpf_ceil", "mpf_nint", "mpf_frac", "mpf_eq", "mpf_hash", "mpf_cmp", "mpf_lt", "mpf_le", "mpf_gt", "mpf_ge",
                        "mpf_pos", "mpf_neg", "mpf_abs", "mpf_sign", "mpf_add", "mpf_sub", "mpf_sum", "python_mpf_mul", "gmpy_mpf_mul",
                        "python_mpf_mul_int", "mpf_shift", "mpf_frexp", "mpf_div", "mpf_rdiv_int", "mpf_mod", "mpf_pow_int", "mpf_perturb",
                        "to_digits_exp", "to_str", "str_to_man_exp", "from_str", "mpf_sqrt", "mpf_hypot", "to_fixed", "to_rational",
                        "to_pickable", "from_pickable", "round_int"],
    "libmp/libmpc.py": ["mpc_hash", "mpc_conjugate", "mpc_add", "mpc_add_mpf", "mpc_sub", "mpc_sub_mpf", "mpc_pos", "mpc_neg", "mpc_shift", "mpc_abs",
                        "mpc_mul", "mpc_square", "mpc_mul_mpf", "mpc_mul_imag_mpf", "mpc_mul_int", "mpc_div", "mpc_div_mpf", "mpc_reciprocal",
                        "mpc_mpf_div", "complex_int_pow", "mpc_pow_int", "mpc_sqrt", "mpc_floor", "mpc_ceil", "mpc_nint", "mpc_frac"],
    "libmp/libmpi.py": ["mpi_eq", "mpi_lt", "mpi_le", "mpi_gt", "mpi_ge", "mpi_add", "mpi_sub", "mpi_delta", "mpi_mid", "mpi_pos", "mpi_neg", "mpi_shift",
                        "mpi_abs", "mpi_mul", "mpi_square", "mpi_div", "mpi_sqrt", "mpi_pow_int", "mpci_add", "mpci_sub", "mpci_neg",
                        "mpci_pos", "mpci_mul", "mpci_square", "mpci_div", "mpci_pow_int",
                        "_mpi_outward", "mpi_exp", "mpi_log", "mpi_pow", "cos_sin_quadrant", "mpi_cos_sin", "mpi_tan", "mpi_cot",
                        "mpi_cosh_sinh", "mpci_exp", "mpci_cos", "mpci_sin", "mpci_abs", "mpi_atan2", "mpci_arg"],
    "libmp/libintmath.py": ["ifac", "python_bitcount", "python_trailing", "isqrt_small_python", "isqrt_fast_python", "sqrtrem_python", "giant_steps"],
}


class _Norm(ast.NodeTransformer):
    def visit_FunctionDef(self, node):
        self.generic_visit(node)
        if node.body and isinstance(node.body[0], ast.Expr) and isinstance(getattr(node.body[0], "value", None), ast.Constant) \
                and isinstance(node.body[0].value.value, str):
            node.body = node.body[1:] or [ast.Pass()]
        return node


def fingerprints(repo=None):
    repo = repo or REPO
    out = {}
    for rel, names in MODELLED.items():
        path = os.path.join(repo, "mpmath", rel)
        try:
            tree = ast.parse(open(path).read())
        except Exception as e:  # unreadable source: every function of the file counts as changed
            for n in names: out["%s:%s" % (rel, n)] = "unparsable:%s" % type(e).__name__
            continue
        defs = {n.name: n for n in ast.walk(tree) if isinstance(n, ast.FunctionDef)}
        for n in names:
            if n not in defs:
                out["%s:%s" % (rel, n)] = "missing"; continue
            node = _Norm().visit(defs[n])
            out["%s:%s" % (rel, n)] = hashlib.sha1(ast.dump(node, annotate_fields=False, include_attributes=False).encode()).hexdigest()[:16]
    return out


def changed():
    """-> sorted list of 'file:function' whose normalised source differs from the reference (or is missing there)"""
    cur = fingerprints()
    try:
        ref = json.load(open(REF))
    except Exception:
        return sorted(cur)
    return sorted(k for k in cur if ref.get(k) != cur[k])


if __name__ == "__main__":
    if "--update" in sys.argv:
        json.dump(fingerprints(), open(REF, "w"), indent=1, sort_keys=True)
        print("reference written:", REF)
    else:
        print("\n".join(changed()) or "no drift")
