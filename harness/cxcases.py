"""Cases for the complex (libmpc) and interval (libmpi) models, with search-side spec predicates
(component-wise correct rounding, modulus error bound, interval containment, three-valued comparisons)."""
from fractions import Fraction
import math
from common import *
import gen
from mpfcases import Case, r2i, V, fv, fin

import mpmath.libmp.libmpf as L
import mpmath.libmp.libmpc as C
import mpmath.libmp.libmpi as I


def modest(rng, prec, bits=None, special_p=0.04):
    t = gen.value(rng, prec, special_p)
    if fin(t) and t[1]:
        t = (t[0], t[1], t[2] % 600 - 300, t[3])
    return t


def cval(rng, prec):
    k = rng.randrange(6)
    a = modest(rng, prec); b = modest(rng, prec)
    if k == 0: b = gen.FZERO
    if k == 1: a = gen.FZERO
    if k == 2 and fin(a) and a[1]:   # comparable magnitudes (cancellation in products)
        b = gen.norm(rng.randrange(2), gen.mant(rng, rng.randint(1, 120), prec), a[2] + a[3] - rng.randint(1, 120))
    return (a, b)


def flat(*zs):
    out = []
    for z in zs:
        for part in z:
            out += list(part)
    return out


def cfv(z):
    return fv(z[0]) and fv(z[1])


def CV(z):
    return (V(z[0]), V(z[1]))


def c_mpc_bin(rng, fn):
    prec = gen.pick_prec(rng, allow_zero=fn in ("mpc_add", "mpc_sub"))
    if prec > 1000: prec = 300
    rnd = rng.choice(RND)
    z = cval(rng, prec); w = cval(rng, prec)
    f = getattr(C, fn)
    exact = None
    if cfv(z) and cfv(w):
        (a, b), (c, d) = CV(z), CV(w)
        if fn == "mpc_add": exact = ("cv", (a + c, b + d))
        elif fn == "mpc_sub": exact = ("cv", (a - c, b - d))
        elif fn == "mpc_mul": exact = ("cv", (a * c - b * d, a * d + b * c))
        elif fn == "mpc_div" and (c or d):
            m = c * c + d * d
            exact = ("cmod", ((a * c + b * d) / m, (b * c - a * d) / m))
    if fn == "mpc_div" and prec == 0: prec = 53
    return Case(fn, flat(z, w) + [prec, r2i(rnd)], lambda: call_impl(f, z, w, prec, rnd), exact, prec, rnd, desc=(z, w))


def c_mpc_un(rng, fn):
    prec = gen.pick_prec(rng, allow_zero=fn in ("mpc_neg", "mpc_pos", "mpc_conjugate"))
    if prec > 1000: prec = 300
    rnd = rng.choice(RND)
    z = cval(rng, prec)
    if fn in ("mpc_floor", "mpc_ceil", "mpc_nint", "mpc_frac"):
        from mpfcases import int_like
        z = (int_like(rng, prec or 53), int_like(rng, prec or 53))
        z = tuple((t[0], t[1], t[2] % 600 - 300, t[3]) if fin(t) and t[1] else t for t in z)
    f = getattr(C, fn)
    exact = None
    if cfv(z):
        a, b = CV(z)
        if fn == "mpc_square": exact = ("cv", (a * a - b * b, 2 * a * b))
        elif fn == "mpc_pos": exact = ("cv", (a, b))
        elif fn == "mpc_neg": exact = ("cv", (-a, -b))
        elif fn == "mpc_conjugate": exact = ("cv0", (a, -b))
        elif fn == "mpc_reciprocal" and (a or b):
            m = a * a + b * b
            exact = ("cmod", (a / m, -b / m))
        elif fn == "mpc_floor": exact = ("cv", (Fraction(math.floor(a)), Fraction(math.floor(b))))
        elif fn == "mpc_ceil": exact = ("cv", (Fraction(math.ceil(a)), Fraction(math.ceil(b))))
        elif fn == "mpc_frac": exact = ("cv", (a - math.floor(a), b - math.floor(b)))
        elif fn == "mpc_abs": exact = ("sqrt", a * a + b * b)
        elif fn == "mpc_sqrt" and (a or b): exact = ("csqrt", (a, b))
    if fn in ("mpc_reciprocal", "mpc_abs", "mpc_sqrt", "mpc_square") and prec == 0: prec = 53
    ret_mpf = fn == "mpc_abs"
    c = Case(fn, flat(z) + [prec, r2i(rnd)], lambda: call_impl(f, z, prec, rnd), exact, prec, rnd, desc=(z,), ret_mpf=ret_mpf)
    return c


def c_mpc_mpf(rng, fn):
    prec = gen.pick_prec(rng)
    if prec > 1000: prec = 300
    rnd = rng.choice(RND)
    z = cval(rng, prec); x = modest(rng, prec)
    f = getattr(C, fn)
    exact = None
    if cfv(z) and fv(x):
        (a, b), p = CV(z), V(x)
        if fn == "mpc_mul_mpf": exact = ("cv", (a * p, b * p))
        elif fn == "mpc_add_mpf": exact = ("cv1", (a + p, b))
        elif fn == "mpc_sub_mpf": exact = ("cv1", (a - p, b))
        elif fn == "mpc_div_mpf" and p: exact = ("cv", (a / p, b / p))
        elif fn == "mpc_mul_imag_mpf": exact = None   # internal helper: rounds b*x then negates (no public claim)
        elif fn == "mpc_mpf_div" and (a or b):
            m = a * a + b * b
            exact = ("cmod", (a * p / m, -b * p / m))
    if fn == "mpc_mpf_div":
        return Case(fn, list(x) + flat(z) + [prec, r2i(rnd)], lambda: call_impl(f, x, z, prec, rnd), exact, prec, rnd)
    return Case(fn, flat(z) + list(x) + [prec, r2i(rnd)], lambda: call_impl(f, z, x, prec, rnd), exact, prec, rnd)


def c_mpc_int(rng, fn):
    prec = gen.pick_prec(rng)
    if prec > 1000: prec = 300
    rnd = rng.choice(RND)
    if fn == "mpc_mul_int":
        z = cval(rng, prec); n = gen.small_int(rng)
        exact = ("cv", (CV(z)[0] * n, CV(z)[1] * n)) if cfv(z) else None
        return Case(fn, flat(z) + [n, prec, r2i(rnd)], lambda: call_impl(C.mpc_mul_int, z, n, prec, rnd), exact, prec, rnd)
    # mpc_pow_int: stay on the modelled branches (exact_size < 10000 or pure real/imaginary)
    k = rng.randrange(5)
    a = gen.norm(rng.randrange(2), gen.mant(rng, rng.randint(1, 40), prec), rng.randint(-20, 20))
    b = gen.norm(rng.randrange(2), gen.mant(rng, rng.randint(1, 40), prec), rng.randint(-20, 20))
    if k == 0: b = gen.FZERO
    if k == 1: a = gen.FZERO
    if rng.random() < 0.12:      # purely real / imaginary bases with special values
        sp = rng.choice([gen.FINF, gen.FNINF, gen.FNAN])
        a, b = (sp, gen.FZERO) if rng.random() < 0.5 else (gen.FZERO, sp)
    z = (a, b)
    n = rng.choice([-7, -3, -2, -1, 0, 1, 2, 3, 4, 5, 8, 13, 16, 31, 50, 100])
    if is_special(a) or is_special(b):
        return Case(fn, flat(z) + [n, prec, r2i(rnd)], lambda: call_impl(C.mpc_pow_int, z, n, prec, rnd), ("cspecial",), prec, rnd, desc=(z, n))
    if a[1] and b[1]:
        de = abs(a[2] - b[2])
        size = abs(n) * (de + max(a[3], b[3]))
        if size >= 10000:
            n = max(3, 9000 // (de + max(a[3], b[3])))
    exact = None
    aa, bb = CV(z)
    if n >= 0 or aa or bb:
        if n >= 0:
            re, im = Fraction(1), Fraction(0)
            for _ in range(n):
                re, im = re * aa - im * bb, re * bb + im * aa
            exact = ("cv", (re, im)) if (a[1] and b[1]) or n >= 0 else None
            if not (a[1] and b[1]) and n >= 0:
                exact = ("cvpow", (re, im))
        else:
            re, im = Fraction(1), Fraction(0)
            for _ in range(-n):
                re, im = re * aa - im * bb, re * bb + im * aa
            m = re * re + im * im
            exact = ("cmod", (re / m, -im / m))
    return Case(fn, flat(z) + [n, prec, r2i(rnd)], lambda: call_impl(C.mpc_pow_int, z, n, prec, rnd), exact, prec, rnd, desc=(z, n))


def c_mpc_hash(rng, fn):
    z = (gen.value(rng, 53, 0.1), gen.value(rng, 53, 0.1))
    if rng.random() < 0.5:
        z = (gen.norm(rng.randrange(2), rng.randint(1, 5), rng.randint(-3, 3)), gen.norm(rng.randrange(2), rng.randint(1, 5), rng.randint(-3, 3)))
    if rng.random() < 0.3: z = (z[0], gen.FZERO)
    return Case(fn, flat(z), lambda: call_impl(C.mpc_hash, z), None, None, None, rounded=False, ret_mpf=False, desc=(z,))


def c_cip(rng, fn):
    a = rng.randint(-10**6, 10**6); b = rng.randint(-10**6, 10**6); n = rng.randint(0, 40)
    re, im = 1, 0
    for _ in range(n):
        re, im = re * a - im * b, re * b + im * a
    return Case(fn, [a, b, n], lambda: call_impl(C.complex_int_pow, a, b, n), ("ints", (re, im)), rounded=False, ret_mpf=False)


# ----------------------------------------------------------------------------- intervals

def ival(rng, prec, allow_inf=True):
    k = rng.randrange(10)
    def f(bits=None):
        t = gen.finite(rng, prec, bits=bits or rng.choice([1, 3, 10, 53, 80, 200]))
        return (t[0], t[1], t[2] % 200 - 100, t[3])
    a = f(); b = f()
    if k == 0: b = a                                   # point
    if k == 1: a = gen.FZERO
    if k == 2: b = gen.FZERO
    if k == 3: a = gen.FZERO; b = gen.FZERO
    if k == 4 and allow_inf: a = gen.FNINF
    if k == 5 and allow_inf: b = gen.FINF
    if k == 6:                                         # narrow
        sh = rng.randint(1, 120)
        b = gen.norm(a[0], (a[1] << sh) + 1, a[2] - sh)
    va = -math.inf if a == gen.FNINF else (0 if not a[1] else V(a))
    vb = math.inf if b == gen.FINF else (0 if not b[1] else V(b))
    if va > vb: a, b = b, a
    return (a, b)


def ends(s):
    lo = None if s[0] == gen.FNINF else V(s[0])
    hi = None if s[1] == gen.FINF else V(s[1])
    return lo, hi


def points(rng, s):
    lo, hi = ends(s)
    if lo is None and hi is None: return [Fraction(0), Fraction(-10**9), Fraction(10**9), Fraction(rng.randint(-100, 100), 7)]
    if lo is None: return [hi, hi - 1, hi - Fraction(10**12), hi - Fraction(1, 10**6)]
    if hi is None: return [lo, lo + 1, lo + Fraction(10**12), lo + Fraction(1, 10**6)]
    pts = [lo, hi, (lo + hi) / 2]
    for _ in range(3):
        pts.append(lo + (hi - lo) * Fraction(rng.randint(0, 1000), 1000))
    if lo < 0 < hi: pts.append(Fraction(0))
    return pts


def c_mpi_bin(rng, fn):
    prec = gen.pick_prec(rng, allow_zero=fn != "mpi_div")
    if prec > 1000: prec = 300
    s = ival(rng, prec); t = ival(rng, prec)
    f = getattr(I, fn)
    op = {"mpi_add": lambda x, y: x + y, "mpi_sub": lambda x, y: x - y, "mpi_mul": lambda x, y: x * y,
          "mpi_div": lambda x, y: x / y if y != 0 else None}[fn]
    exact = ("contain2", (points(rng, s), points(rng, t), op))
    return Case(fn, flat(s, t) + [prec], lambda: call_impl(f, s, t, prec), exact, prec, None, desc=(s, t))


def c_mpi_un(rng, fn):
    prec = gen.pick_prec(rng, allow_zero=fn in ("mpi_neg", "mpi_abs", "mpi_square", "mpi_pos"))
    if prec > 1000: prec = 300
    s = ival(rng, prec, allow_inf=fn not in ("mpi_delta", "mpi_mid"))
    if fn == "mpi_sqrt":
        s = (s[0] if s[0][0] == 0 else gen.FZERO, s[1] if s[1][0] == 0 else L.mpf_neg(s[1]))
        if s[1] != gen.FINF and s[0][1] and V(s[0]) > V(s[1]): s = (s[1], s[0])
        if prec == 0: prec = 53
    f = getattr(I, fn)
    op = {"mpi_neg": lambda x: -x, "mpi_abs": abs, "mpi_square": lambda x: x * x, "mpi_pos": lambda x: x,
          "mpi_sqrt": "sqrt", "mpi_delta": None, "mpi_mid": None}[fn]
    exact = ("contain1", (points(rng, s), op)) if op is not None else None
    ret_pair = fn not in ("mpi_delta", "mpi_mid")
    if not ret_pair and prec == 0: prec = 53
    c = Case(fn, flat(s) + [prec], lambda: call_impl(f, s, prec), exact, prec, None, desc=(s,), ret_mpf=not ret_pair)
    if not ret_pair: c.rounded = True
    return c


def c_mpi_pow(rng, fn):
    prec = gen.pick_prec(rng)
    if prec > 1000: prec = 300
    s = ival(rng, prec, allow_inf=False)
    s = tuple((t[0], t[1], t[2] % 40 - 20, t[3]) if t[1] else t for t in s)
    if s[0][1] and s[1][1] and V(s[0]) > V(s[1]): s = (s[1], s[0])
    elif s[0][1] and not s[1][1] and V(s[0]) > 0: s = (s[1], s[0])
    elif s[1][1] and not s[0][1] and V(s[1]) < 0: s = (s[1], s[0])
    n = rng.choice([-5, -4, -3, -2, -1, 0, 1, 2, 3, 4, 5, 6, 7, 10, 11, 30, 31, 100, 101])
    def op(x, n=n):
        if n < 0 and x == 0: return None
        return x ** n
    exact = ("contain1", (points(rng, s), op))
    return Case(fn, flat(s) + [n, prec], lambda: call_impl(I.mpi_pow_int, s, n, prec), exact, prec, None, desc=(s, n))


def c_mpi_cmp(rng, fn):
    k = rng.randrange(5)
    s = ival(rng, 53); t = ival(rng, 53)
    if k == 0: t = (s[1], t[1]) if t[1] == gen.FINF or (s[1] != gen.FINF and (not t[1][1] and V(s[1]) <= 0 or t[1][1] and s[1] != gen.FNINF and (0 if not s[1][1] else V(s[1])) <= V(t[1]))) else t   # touching
    if k == 1: t = s
    if k == 2: t = (s[0], s[0]) if s[0] != gen.FNINF else t
    f = getattr(I, fn)
    def thunk():
        try:
            v = f(s, t)
            return [0, -1 if v is None else int(v)]
        except Exception as e:
            return enc_exc(e)
    return Case(fn, flat(s, t), thunk, ("ivcmp", (s, t)), None, None, rounded=False, ret_mpf=False, desc=(s, t))


def c_mpci(rng, fn):
    prec = rng.choice([5, 24, 53, 100])
    op = rng.randrange(7)
    def civ():
        return (ival(rng, prec, allow_inf=False), ival(rng, prec, allow_inf=False))
    x = civ(); y = civ()
    n = rng.choice([-3, -2, -1, 0, 1, 2, 3, 4, 5, 9])
    if op == 6:
        y = ((( n if n >= 0 else n, 0, 0, 0), gen.FZERO), (gen.FZERO, gen.FZERO))
    fs = {0: lambda: I.mpci_add(x, y, prec), 1: lambda: I.mpci_sub(x, y, prec), 2: lambda: I.mpci_mul(x, y, prec),
          3: lambda: I.mpci_div(x, y, prec), 4: lambda: I.mpci_square(x, prec), 5: lambda: I.mpci_neg(x, prec),
          6: lambda: I.mpci_pow_int(x, n, prec)}
    def cop(p, q, op=op, n=n):
        (a, b), (c, d) = p, q
        if op == 0: return (a + c, b + d)
        if op == 1: return (a - c, b - d)
        if op == 2: return (a * c - b * d, a * d + b * c)
        if op == 3:
            m = c * c + d * d
            if m == 0: return None
            return ((a * c + b * d) / m, (b * c - a * d) / m)
        if op == 4: return (a * a - b * b, 2 * a * b)
        if op == 5: return (-a, -b)
        re, im = Fraction(1), Fraction(0)
        for _ in range(abs(n)):
            re, im = re * a - im * b, re * b + im * a
        if n < 0:
            m = re * re + im * im
            if m == 0: return None
            return (re / m, -im / m)
        return (re, im)
    px = [(u, v) for u in points(rng, x[0])[:4] for v in points(rng, x[1])[:4]]
    py = [(u, v) for u in points(rng, y[0])[:3] for v in points(rng, y[1])[:3]] if op < 4 else [(Fraction(0), Fraction(0))]
    margs = [op]
    for part in (x[0], x[1], y[0], y[1]):
        margs += flat(part)
    margs.append(prec)
    def thunk():
        try:
            v = fs[op]()
            return [0] + flat(v[0], v[1])
        except Exception as e:
            return enc_exc(e)
    return Case(fn, margs, thunk, ("ccontain", (px, py, cop)), prec, None, rounded=False, ret_mpf=False, desc=(x, y, op, n))


FONE_ = (0, 1, 0, 1)


# ---- the outward step of mpi_exp / mpi_log (Algo/Libmpi.v: mpi_outward, mpi_exp_from, mpi_log_from) -------------------
def _modest_mpf(rng, bits, lo=-30, hi=9):
    """finite non-zero value of `bits` bits with |value| < 2^hi"""
    m = gen.mant(rng, bits)
    t = gen.norm(rng.randrange(2), m, 0)
    return (t[0], t[1], rng.randint(lo, hi) - t[3], t[3])


def c_mpi_outward(rng, fn):
    """_mpi_outward driven with a stub point function returning a chosen value v"""
    prec = rng.choice([1, 2, 5, 10, 24, 53, 64, 100, 113, 200, rng.randint(1, 400)])
    r = rng.choice(["f", "c"])
    k = rng.randrange(12)
    if k == 0: v = gen.FZERO
    elif k == 1: v = gen.FINF
    elif k == 2: v = gen.FNINF
    else:
        v = gen.finite(rng, prec + 20, bits=rng.choice([1, 3, prec + 20, prec + 20, prec + 19, prec + 40]))
        if not fin(v) or not v[1]:
            v = FONE_
        v = (v[0], v[1], v[2] % 4000 - 2000, v[3])
    x = FONE_
    exact = None
    if fin(v) and v[1]:
        wp = prec + 20
        up = (bool(v[0]) == (r == "f"))
        pfac = 1 + Fraction(1, 2 ** (wp - 10)) if up else 1 - Fraction(1, 2 ** (wp - 10))
        exact = ("v", V(v) * pfac)
    return Case(fn, list(v) + [prec, RND.index(r)], lambda: call_impl(I._mpi_outward, (lambda _x, _wp, _rnd: v), x, prec, r),
                exact, prec, r, desc=("outward", v, r))


def _expfrom(rng, fn, which):
    prec = rng.choice([2, 5, 10, 24, 53, 64, 100, 113, 200, rng.randint(2, 300)])
    bits = lambda: rng.choice([1, 3, 10, prec, prec, 80])
    if which == "exp":
        a = _modest_mpf(rng, bits()); b = _modest_mpf(rng, bits())
        k = rng.randrange(8)
        if k == 0: a = gen.FZERO
        if k == 1: b = gen.FZERO
        if k == 2: b = a
        if (V(a) if a[1] else 0) > (V(b) if b[1] else 0): a, b = b, a
    else:
        a = _modest_mpf(rng, bits(), -40, 40); b = _modest_mpf(rng, bits(), -40, 40)
        a = (0,) + tuple(a[1:]); b = (0,) + tuple(b[1:])
        k = rng.randrange(8)
        if k == 0: a = FONE_
        if k == 1: b = FONE_
        if k == 2: b = a
        if k == 3: a = gen.norm(0, (1 << 60) - rng.randint(1, 9), -60); b = gen.norm(0, (1 << 60) + rng.randint(1, 9), -60)
        if V(a) > V(b): a, b = b, a
    s = (a, b)
    margs = (flat(s) if which == "exp" else []) + [0] * 8 + [prec]
    off = 8 if which == "exp" else 0
    rec = {}
    name = "mpf_exp" if which == "exp" else "mpf_log"

    def thunk():
        orig = getattr(I, name)
        def w(x, p, rnd="n"):
            v = orig(x, p, rnd); rec[rnd] = v; return v
        setattr(I, name, w)
        try:
            out = call_impl(getattr(I, "mpi_" + which), s, prec)
        finally:
            setattr(I, name, orig)
        margs[off:off + 4] = list(rec.get("f", gen.FZERO)); margs[off + 4:off + 8] = list(rec.get("c", gen.FZERO))
        return out
    pts = points(rng, s)
    return Case(fn, margs, thunk, ("elemcontain", which, s, pts, rec), prec, None, rounded=False, ret_mpf=False, desc=(which, s))


def c_mpi_exp_from(rng, fn):
    return _expfrom(rng, fn, "exp")


def c_mpi_log_from(rng, fn):
    return _expfrom(rng, fn, "log")


def _elem_enclosure(which, x, wp):
    """(lo, hi) Fractions enclosing exp(x) / ln(x), x a Fraction: high-precision evaluation on the search side"""
    import mpmath
    if (which == "exp" and x == 0) or (which == "log" and x == 1):
        e = Fraction(1 if which == "exp" else 0)
        return e, e
    with mpmath.workprec(wp + 80):
        X = mpmath.mpf(x.numerator) / x.denominator
        v = mpmath.exp(X) if which == "exp" else mpmath.log(X)
        fv = mpf_value(v._mpf_) if v._mpf_[1] else Fraction(0)
    slack = abs(fv) / 2 ** (wp + 60) + (Fraction(1, 2 ** (wp + 200)) if fv == 0 else 0)
    return fv - slack, fv + slack


def elem_spec(case, out):
    bad = []
    _, which, s, pts, rec = case.exact
    p = out[1:]
    a, b = tup4(p, 0), tup4(p, 1)
    wp = case.prec + 20
    # hypothesis of mpi_exp_contains / mpi_log_contains: the point values are within 2^(9-wp) of the exact ones
    for rnd, end in (("f", s[0]), ("c", s[1])):
        if rnd not in rec: continue
        v = rec[rnd]
        if not fin(v): 
            bad.append(("CONTAIN", "point function returned a non-finite value at a finite end point")); continue
        x = V(end) if end[1] else Fraction(0)
        lo, hi = _elem_enclosure(which, x, wp)
        vv = V(v) if v[1] else Fraction(0)
        err = max(abs(vv - lo), abs(vv - hi))
        if err * 2 ** (wp - 9) > max(abs(lo), abs(hi)):
            bad.append(("CONTAIN", "mpf_%s at the working precision is more than 2^(9-wp) (relative) from the exact value: hypothesis of mpi_%s_contains fails" % (which, which)))
    for x in pts:
        if which == "log" and x <= 0: continue
        lo, hi = _elem_enclosure(which, x, wp)
        if not (in_interval(lo, a, b) and in_interval(hi, a, b)):
            bad.append(("CONTAIN", "result interval misses %s(%s)" % (which, x))); break
    for t in (a, b):
        if not canonical(t): bad.append(("C01", "non-canonical endpoint"))
    return bad


def c_mpi_finalize(rng, fn):
    """the closure `finalize` of mpi_cos_sin is not callable on its own: it is exercised through mpi_cos_sin_from; this
    generator drives the model's mpi_finalize against a transcription-free route: mpi_cos_sin on a point interval whose
    quadrant values are replaced by chosen ones (so finalize sees arbitrary v in [-1, 1] and beyond)"""
    prec = rng.choice([1, 2, 5, 10, 24, 53, 64, 100, 113, 200, rng.randint(1, 300)])
    wp = prec + 20
    def val():
        k = rng.randrange(8)
        if k == 0: return gen.FZERO
        if k == 1: return FONE_
        if k == 2: return (1, 1, 0, 1)
        if k == 3: return gen.norm(rng.randrange(2), (1 << wp) - rng.randint(1, 2000), -wp)          # just inside 1
        if k == 4: return gen.norm(rng.randrange(2), (1 << wp) + rng.randint(1, 2000), -wp)          # just outside 1
        t = gen.norm(rng.randrange(2), gen.mant(rng, rng.choice([1, 5, wp, wp, wp + 7])), 0)
        return (t[0], t[1], -t[3] - rng.choice([0, 0, 0, 1, 2, 10, 60, 300]), t[3])
    c = val(); sn = val(); n = rng.randint(-9, 9)
    x = _modest_mpf(rng, rng.choice([1, 10, prec]), -5, 5)
    s = (x, x)
    margs = flat(s) + list(c) + list(sn) + [n] + list(c) + list(sn) + [n] + [prec]

    def thunk():
        orig = I.cos_sin_quadrant
        I.cos_sin_quadrant = lambda _x, _wp: (c, sn, n)
        try:
            return call_impl(I.mpi_cos_sin, s, prec)
        finally:
            I.cos_sin_quadrant = orig
    return Case("mpi_cos_sin_from", margs, thunk, None, prec, None, rounded=False, ret_mpf=False, desc=("finalize", c, sn))


def c_mpi_cos_sin_from(rng, fn):
    which = {"mpi_cos_sin_from": "mpi_cos_sin", "mpi_tan_from": "mpi_tan", "mpi_cot_from": "mpi_cot"}[fn]
    prec = rng.choice([2, 5, 10, 24, 53, 64, 100, 113, 200, rng.randint(2, 300)])
    k = rng.randrange(12)
    bits = lambda: rng.choice([1, 3, 10, prec, prec, 80])
    a = _modest_mpf(rng, bits(), -12, rng.choice([2, 3, 5, 12, 40]))
    if k == 0: b = a
    elif k in (1, 2, 3, 4):            # width up to a few quadrants
        w = _modest_mpf(rng, bits(), -10, 3); w = (0,) + tuple(w[1:])
        b = L.mpf_add(a, w)
    elif k == 5: a = gen.FZERO; b = _modest_mpf(rng, bits(), -12, 4); b = (0,) + tuple(b[1:])
    elif k == 6: b = gen.FZERO; a = _modest_mpf(rng, bits(), -12, 4); a = (1,) + tuple(a[1:])
    elif k == 7: a = gen.FZERO; b = gen.FZERO
    elif k == 8: b = gen.FINF
    elif k == 9: a = gen.FNINF; b = _modest_mpf(rng, bits(), -12, 4)
    elif k == 10:                       # narrow interval next to a multiple of pi/2
        import mpmath
        with mpmath.workprec(prec + 30):
            m = rng.randint(-40, 40)
            c0 = (mpmath.pi / 2 * m)._mpf_
        w = gen.norm(0, rng.randint(1, 1000), -prec - rng.randint(-5, 25))
        a = L.mpf_sub(c0, w, prec, "f") if c0[1] else (1,) + tuple(w[1:])
        b = L.mpf_add(c0, w, prec, "c") if c0[1] else w
    else:
        b = _modest_mpf(rng, bits(), -12, rng.choice([2, 3, 5, 12, 40]))
    def val(t):
        return -math.inf if t == gen.FNINF else math.inf if t == gen.FINF else (V(t) if t[1] else 0)
    if val(a) > val(b): a, b = b, a
    s = (a, b)
    margs = flat(s) + [0] * 18 + [prec]
    rec = []

    def thunk():
        orig = I.cos_sin_quadrant
        def w(x, wp):
            r = orig(x, wp); rec.append((x, r)); return r
        I.cos_sin_quadrant = w
        try:
            out = call_impl(getattr(I, which), s, prec)
        finally:
            I.cos_sin_quadrant = orig
        if len(rec) == 2:
            (_, (c1, s1, n1)), (_, (c2, s2, n2)) = rec
            margs[8:26] = list(c1) + list(s1) + [n1] + list(c2) + list(s2) + [n2]
        return out
    pts = points(rng, s) if a != gen.FNINF and b != gen.FINF else [Fraction(rng.randint(-1000, 1000), 7)]
    return Case(fn, margs, thunk, ("trigcontain", s, pts, rec, which), prec, None, rounded=False, ret_mpf=False, desc=(which, s))


def _trig_enclosure(x, wp):
    """((clo, chi), (slo, shi)) enclosing cos x, sin x for a Fraction x; search side, high precision"""
    import mpmath
    if x == 0:
        return (Fraction(1), Fraction(1)), (Fraction(0), Fraction(0))
    extra = max(0, abs(x.numerator).bit_length() - x.denominator.bit_length()) + 80
    with mpmath.workprec(wp + extra):
        X = mpmath.mpf(x.numerator) / x.denominator
        c, s_ = mpmath.cos(X), mpmath.sin(X)
        fc = mpf_value(c._mpf_) if c._mpf_[1] else Fraction(0)
        fs = mpf_value(s_._mpf_) if s_._mpf_[1] else Fraction(0)
    sl = Fraction(1, 2 ** (wp + 60))
    cl = lambda v: max(Fraction(-1), min(Fraction(1), v))          # cos, sin lie in [-1, 1]
    return (cl(fc - sl * max(abs(fc), sl)), cl(fc + sl * max(abs(fc), sl))), (cl(fs - sl * max(abs(fs), sl)), cl(fs + sl * max(abs(fs), sl)))


def trig_spec(case, out):
    import mpmath
    bad = []
    _, s, pts, rec, which = case.exact
    p = out[1:]
    quot = which != "mpi_cos_sin"
    if quot:
        ca, cb = tup4(p, 0), tup4(p, 1); sa = sb = None
    else:
        ca, cb, sa, sb = tup4(p, 0), tup4(p, 1), tup4(p, 2), tup4(p, 3)
    wp = case.prec + (40 if quot else 20)
    # hypotheses of mpi_cos_sin_contains: quadrant index and closeness of the point values
    for x, (c, sn, n) in rec:
        xv = V(x) if x[1] else Fraction(0)
        with mpmath.workprec(wp + 200):
            h = mpmath.pi / 2
            hlo = mpf_value((h * (1 - mpmath.mpf(2) ** (-wp - 150)))._mpf_); hhi = mpf_value((h * (1 + mpmath.mpf(2) ** (-wp - 150)))._mpf_)
        lo = min(n * hlo, n * hhi); hi = max((n + 1) * hlo, (n + 1) * hhi)
        if not (lo <= xv <= hi):
            bad.append(("CONTAIN", "cos_sin_quadrant returned quadrant %d for a point outside [n pi/2, (n+1) pi/2]" % n))
        (clo, chi), (slo, shi) = _trig_enclosure(xv, wp)
        for nm, v, (l_, h_) in (("cos", c, (clo, chi)), ("sin", sn, (slo, shi))):
            if not fin(v):
                bad.append(("CONTAIN", "non-finite point value")); continue
            vv = V(v) if v[1] else Fraction(0)
            err = max(abs(vv - l_), abs(vv - h_))
            if err * 2 ** (wp - 9) > max(abs(l_), abs(h_)):
                bad.append(("CONTAIN", "mpf_cos_sin (%s) at the working precision is more than 2^(9-wp) (relative) from the exact value: hypothesis of mpi_cos_sin_contains fails" % nm))
    for x in pts:
        (clo, chi), (slo, shi) = _trig_enclosure(x, wp)
        if quot:
            num, den = ((slo, shi), (clo, chi)) if which == "mpi_tan" else ((clo, chi), (slo, shi))
            if den[0] <= 0 <= den[1]:
                continue                      # at (or indistinguishable from) a pole: no finite value to contain
            qs = [n_ / d_ for n_ in num for d_ in den]
            if not (in_interval(min(qs), ca, cb) and in_interval(max(qs), ca, cb)):
                bad.append(("CONTAIN", "%s interval misses the value at %s" % (which, x))); break
            continue
        if not (in_interval(clo, ca, cb) and in_interval(chi, ca, cb)):
            bad.append(("CONTAIN", "cos interval misses cos(%s)" % x)); break
        if not (in_interval(slo, sa, sb) and in_interval(shi, sa, sb)):
            bad.append(("CONTAIN", "sin interval misses sin(%s)" % x)); break
    for t in (ca, cb, sa, sb):
        if t is not None and not canonical(t): bad.append(("C01", "non-canonical endpoint"))
    return bad


# ---- compositions: mpci_abs, mpi_pow (general branch), mpi_cosh_sinh, mpci_exp, mpci_cos, mpci_sin ---------------------
class _Rec:
    """records the point-function values the interval code consumes (mpf_exp, mpf_log, cos_sin_quadrant of libmpi)"""
    def __init__(self):
        self.exp = {}; self.log = {}; self.quad = []; self.exp_at = {}; self.log_at = {}

    def __enter__(self):
        self._orig = (I.mpf_exp, I.mpf_log, I.cos_sin_quadrant)
        oe, ol, oq = self._orig
        def we(x, p, rnd="n"):
            v = oe(x, p, rnd); self.exp[rnd] = v; self.exp_at[rnd] = x; return v
        def wl(x, p, rnd="n"):
            v = ol(x, p, rnd); self.log[rnd] = v; self.log_at[rnd] = x; return v
        def wq(x, wp):
            r = oq(x, wp); self.quad.append((x, r)); return r
        I.mpf_exp, I.mpf_log, I.cos_sin_quadrant = we, wl, wq
        return self

    def __exit__(self, *a):
        I.mpf_exp, I.mpf_log, I.cos_sin_quadrant = self._orig

    def quads(self):
        out = []
        for k in range(2):
            if k < len(self.quad):
                _, (c, sn, n) = self.quad[k]; out += list(c) + list(sn) + [n]
            else:
                out += [0] * 9
        return out

    def pair(self, d):
        return list(d.get("f", gen.FZERO)) + list(d.get("c", gen.FZERO))


def _small_iv(rng, prec, lo=-12, hi=4, positive=False):
    bits = lambda: rng.choice([1, 3, 10, prec, prec, 80])
    a = _modest_mpf(rng, bits(), lo, hi); b = _modest_mpf(rng, bits(), lo, hi)
    if positive:
        a = (0,) + tuple(a[1:]); b = (0,) + tuple(b[1:])
    k = rng.randrange(10)
    if k == 0: b = a
    if k == 1 and not positive: a = gen.FZERO
    if k == 2 and not positive: b = gen.FZERO
    if k == 3 and not positive: a = b = gen.FZERO
    if k == 4:
        w = gen.norm(0, rng.randint(1, 1000), a[2] + a[3] - prec - rng.randint(-3, 20)); b = L.mpf_add(a, w)
    va = V(a) if a[1] else 0; vb = V(b) if b[1] else 0
    if va > vb: a, b = b, a
    return (a, b)


def c_compose(rng, fn):
    prec = rng.choice([2, 5, 10, 24, 53, 64, 100, 113, rng.randint(2, 200)])
    rec = _Rec()
    if fn == "mpci_abs":
        z = (_small_iv(rng, prec, -40, 40), _small_iv(rng, prec, -40, 40))
        margs = flat(*z) + [prec]
        def thunk():
            return call_impl(I.mpci_abs, z, prec)
        pts = (points(rng, z[0]), points(rng, z[1]))
        return Case(fn, margs, thunk, ("compose", fn, z, pts, rec), prec, None, rounded=False, ret_mpf=False, desc=(fn, z))
    if fn == "mpi_pow_from":
        s_ = _small_iv(rng, prec, -8, 8, positive=True)
        t_ = _small_iv(rng, prec, -6, 4)
        if t_[0] == t_[1]:          # a point exponent that is an integer or one half takes another branch
            t_ = (t_[0], L.mpf_add(t_[1], gen.norm(0, 1, -prec - 2)))
        margs = flat(t_) + [0] * 16 + [prec]
        def thunk():
            with rec:
                out = call_impl(I.mpi_pow, s_, t_, prec)
            margs[8:24] = rec.pair(rec.log) + rec.pair(rec.exp)
            return out
        pts = (points(rng, s_), points(rng, t_))
        return Case(fn, margs, thunk, ("compose", fn, (s_, t_), pts, rec), prec, None, rounded=False, ret_mpf=False, desc=(fn, s_, t_))
    if fn == "mpi_cosh_sinh_from":
        x = _small_iv(rng, prec, -12, 6)
        margs = flat(x) + [0] * 8 + [prec]
        def thunk():
            with rec:
                out = call_impl(I.mpi_cosh_sinh, x, prec)
            margs[8:16] = rec.pair(rec.exp)
            return out
        return Case(fn, margs, thunk, ("compose", fn, x, points(rng, x), rec), prec, None, rounded=False, ret_mpf=False, desc=(fn, x))
    z = (_small_iv(rng, prec, -12, 5), _small_iv(rng, prec, -12, 5))
    f = {"mpci_exp_from": I.mpci_exp, "mpci_cos_from": I.mpci_cos, "mpci_sin_from": I.mpci_sin}[fn]
    margs = flat(*z) + [0] * 26 + [prec]
    def thunk():
        with rec:
            out = call_impl(f, z, prec)
        if fn == "mpci_exp_from":
            margs[16:42] = rec.pair(rec.exp) + rec.quads()
        else:
            margs[16:42] = rec.quads() + rec.pair(rec.exp)
        return out
    pts = (points(rng, z[0]), points(rng, z[1]))
    return Case(fn, margs, thunk, ("compose", fn, z, pts, rec), prec, None, rounded=False, ret_mpf=False, desc=(fn, z))


def _hp(fr, wp, f):
    """enclosure (lo, hi) of f(x) as Fractions: f is evaluated with mpmath at wp + 120 bits (search side)"""
    import mpmath
    with mpmath.workprec(wp + 120):
        v = f(mpmath)
        t = v._mpf_
        fv_ = mpf_value(t) if t[1] else Fraction(0)
    if fv_ == 0:
        return Fraction(0), Fraction(0)
    sl = abs(fv_) / 2 ** (wp + 80)
    return fv_ - sl, fv_ + sl


def _mp(m, fr):
    return m.mpf(fr.numerator) / fr.denominator


def _close_ok(v, lo, hi, wp):
    if not fin(v): return False
    vv = V(v) if v[1] else Fraction(0)
    err = max(abs(vv - lo), abs(vv - hi))
    return err * 2 ** (wp - 9) <= max(abs(lo), abs(hi))


def compose_spec(case, out):
    bad = []
    _, fn, arg, pts, rec = case.exact
    p = out[1:]
    prec = case.prec
    def monitor_exp(wp):
        for rnd in ("f", "c"):
            if rnd in rec.exp:
                x = rec.exp_at[rnd]; xv = V(x) if x[1] else Fraction(0)
                lo, hi = _hp(xv, wp, lambda m: m.exp(_mp(m, xv)))
                if not _close_ok(rec.exp[rnd], lo, hi, wp):
                    bad.append(("CONTAIN", "mpf_exp at the working precision is more than 2^(9-wp) (relative) off: hypothesis `close` fails"))
    def monitor_log(wp):
        for rnd in ("f", "c"):
            if rnd in rec.log:
                x = rec.log_at[rnd]; xv = V(x)
                lo, hi = _hp(xv, wp, lambda m: m.log(_mp(m, xv)))
                if not _close_ok(rec.log[rnd], lo, hi, wp):
                    bad.append(("CONTAIN", "mpf_log at the working precision is more than 2^(9-wp) (relative) off: hypothesis `close` fails"))
    def monitor_quad(wp):
        import mpmath
        for x, (c, sn, n) in rec.quad:
            xv = V(x) if x[1] else Fraction(0)
            with mpmath.workprec(wp + 200):
                h = mpmath.pi / 2
                hlo = mpf_value((h * (1 - mpmath.mpf(2) ** (-wp - 150)))._mpf_); hhi = mpf_value((h * (1 + mpmath.mpf(2) ** (-wp - 150)))._mpf_)
            if not (min(n * hlo, n * hhi) <= xv <= max((n + 1) * hlo, (n + 1) * hhi)):
                bad.append(("CONTAIN", "cos_sin_quadrant returned a wrong quadrant index: hypothesis `quad` fails"))
            (clo, chi), (slo, shi) = _trig_enclosure(xv, wp)
            if not _close_ok(c, clo, chi, wp) or not _close_ok(sn, slo, shi, wp):
                bad.append(("CONTAIN", "mpf_cos_sin at the working precision is more than 2^(9-wp) (relative) off: hypothesis `close` fails"))
    def inside(lohi, k):
        # the search-side enclosure [lo, hi] of the exact value must meet the result interval (a value within the
        # enclosure's own slack of an end point is not reported)
        a, b = tup4(p, 2 * k), tup4(p, 2 * k + 1)
        if a == gen.FNAN or b == gen.FNAN: return False
        below = (b != gen.FINF) and (b == gen.FNINF or lohi[0] > (V(b) if b[1] else 0))
        above = (a != gen.FNINF) and (a == gen.FINF or lohi[1] < (V(a) if a[1] else 0))
        return not (below or above)
    if fn == "mpci_abs":
        for x in pts[0][:4]:
            for y in pts[1][:4]:
                n2 = x * x + y * y
                if not sqrt_in(n2, tup4(p, 0), tup4(p, 1)):
                    bad.append(("CONTAIN", "mpci_abs misses |%s + %s i|" % (x, y))); return bad
    elif fn == "mpi_pow_from":
        monitor_log(prec + 40); monitor_exp(prec + 20)
        for x in pts[0][:4]:
            for y in pts[1][:4]:
                if x <= 0: continue
                lohi = (Fraction(1), Fraction(1)) if (y == 0 or x == 1) else _hp(x, prec + 20, lambda m: m.exp(_mp(m, y) * m.log(_mp(m, x))))
                if not inside(lohi, 0):
                    bad.append(("CONTAIN", "mpi_pow misses %s ** %s" % (x, y))); return bad
    elif fn == "mpi_cosh_sinh_from":
        monitor_exp(prec + 40)
        for x in pts:
            c = (Fraction(1), Fraction(1)) if x == 0 else _hp(x, prec + 20, lambda m: m.cosh(_mp(m, x)))
            sh = _hp(x, prec + 20, lambda m: m.sinh(_mp(m, x)))
            if not inside(c, 0) or not inside(sh, 1):
                bad.append(("CONTAIN", "mpi_cosh_sinh misses the value at %s" % x)); return bad
    else:
        if fn == "mpci_exp_from":
            monitor_exp(prec + 40); monitor_quad(prec + 40)
            fr = lambda m, a, b: m.exp(_mp(m, a)) * m.cos(_mp(m, b)); fi = lambda m, a, b: m.exp(_mp(m, a)) * m.sin(_mp(m, b))
        elif fn == "mpci_cos_from":
            monitor_quad(prec + 30); monitor_exp(prec + 50)
            fr = lambda m, a, b: m.cos(_mp(m, a)) * m.cosh(_mp(m, b)); fi = lambda m, a, b: -m.sin(_mp(m, a)) * m.sinh(_mp(m, b))
        else:
            monitor_quad(prec + 30); monitor_exp(prec + 50)
            fr = lambda m, a, b: m.sin(_mp(m, a)) * m.cosh(_mp(m, b)); fi = lambda m, a, b: m.cos(_mp(m, a)) * m.sinh(_mp(m, b))
        for a in pts[0][:4]:
            for b in pts[1][:4]:
                re = _hp(a, prec + 20, lambda m: fr(m, a, b)); im = _hp(a, prec + 20, lambda m: fi(m, a, b))
                if not inside(re, 0) or not inside(im, 1):
                    bad.append(("CONTAIN", "%s misses the value at %s + %s i" % (fn, a, b))); return bad
    return bad


# ---- mpi_atan2: which corners of the rectangle mpf_atan2 is evaluated at (Algo/Libmpi.v: mpi_atan2_plan) ----------------
def c_mpi_atan2_plan(rng, fn):
    prec = rng.choice([2, 5, 10, 24, 53, 64, 100, 113, rng.randint(2, 200)])
    def iv_(kind):
        s = _small_iv(rng, prec, -10, 6)
        a, b = s
        if kind == 1: a = (0,) + tuple(a[1:]) if a[1] else a; b = (0,) + tuple(b[1:]) if b[1] else b       # >= 0
        if kind == 2: a = (1,) + tuple(a[1:]) if a[1] else a; b = (1,) + tuple(b[1:]) if b[1] else b       # <= 0
        if kind == 3: a = (1,) + tuple(a[1:]) if a[1] else a; b = (0,) + tuple(b[1:]) if b[1] else b       # mixed
        va = V(a) if a[1] else 0; vb = V(b) if b[1] else 0
        return (a, b) if va <= vb else (b, a)
    y = iv_(rng.randrange(4)); x = iv_(rng.randrange(4))
    if rng.random() < 0.08: y = (gen.FZERO, gen.FZERO)
    # half-infinite and infinite sides (the corners handed to mpf_atan2 are then infinite)
    if rng.random() < 0.12: y = (gen.FNINF, y[1]) if rng.random() < 0.5 else (y[0], gen.FINF)
    if rng.random() < 0.12: x = (gen.FNINF, x[1]) if rng.random() < 0.5 else (x[0], gen.FINF)
    rec = {}

    def thunk():
        calls = []
        orig = I.mpf_atan2
        def w(y_, x_, prec_, rnd_="n"):
            calls.append((y_, x_, rnd_)); return orig(y_, x_, prec_, rnd_)
        I.mpf_atan2 = w
        try:
            res = I.mpi_atan2(y, x, prec)
        except Exception as e:
            return enc_exc(e)
        finally:
            I.mpf_atan2 = orig
        rec["res"] = res; rec["calls"] = calls
        if len(calls) == 2 and {c[2] for c in calls} == {"f", "c"}:
            ca = next(c for c in calls if c[2] == "f"); cb = next(c for c in calls if c[2] == "c")
            return [0, 2] + list(ca[0]) + list(ca[1]) + list(cb[0]) + list(cb[1])
        if calls:
            return [0, 9]                              # unexpected call pattern: reported as a disagreement
        if res == (gen.FZERO, gen.FZERO):
            return [0, 0]
        if res[0] == gen.FZERO:
            return [0, 4]
        return [0, 1] if res[0][0] == 0 else [0, 3]
    def pts_of(s):
        ps = points(rng, s)
        big = Fraction(2) ** (prec + 40)
        if s[0] == gen.FNINF: ps = ps[:3] + [-big, -big * big]
        if s[1] == gen.FINF: ps = ps[:3] + [big, big * big]
        return ps
    pts = (pts_of(y), pts_of(x))
    return Case(fn, flat(y, x), thunk, ("atan2plan", y, x, pts, rec), prec, None, rounded=False, ret_mpf=False, desc=("atan2", y, x))


def atan2_spec(case, out):
    bad = []
    _, y, x, pts, rec = case.exact
    if "res" not in rec: return bad
    a, b = rec["res"]
    prec = case.prec
    def ang(v, u):
        if v == 0 and u >= 0: return Fraction(0), Fraction(0)
        return _hp(v, prec + 20, lambda m: m.atan2(_mp(m, v), _mp(m, u)))
    def val(t):
        return math.inf if t == gen.FINF else -math.inf if t == gen.FNINF else (V(t) if t[1] else Fraction(0))
    def ang_ext(vy, vx):
        """enclosure of atan2 at a corner that may be infinite (None when undefined)"""
        import mpmath
        if vy in (math.inf, -math.inf) or vx in (math.inf, -math.inf):
            with mpmath.workprec(prec + 200):
                pv = mpf_value(mpmath.pi._mpf_)
            plo, phi = pv * (1 - Fraction(1, 2 ** (prec + 150))), pv * (1 + Fraction(1, 2 ** (prec + 150)))
            if vy in (math.inf, -math.inf) and vx in (math.inf, -math.inf): return None
            if vy == math.inf: return plo / 2, phi / 2
            if vy == -math.inf: return -phi / 2, -plo / 2
            if vx == math.inf: return Fraction(0), Fraction(0)
            return (plo, phi) if vy >= 0 else (-phi, -plo)
        if vy == 0 and vx == 0: return None
        return ang(vy, vx)
    def meets(lohi):
        below = lohi[0] > (V(b) if b[1] else 0)
        above = lohi[1] < (V(a) if a[1] else 0)
        return not (below or above)
    # plans without an mpf_atan2 call: the end points are 0 and/or directed roundings of pi; they must enclose what the
    # plan stands for ([0,0], [pi,pi], [0,pi], [-pi,pi])
    if not rec.get("calls") and out[0] == 0 and len(out) > 1 and out[1] in (1, 3, 4):
        import mpmath
        with mpmath.workprec(prec + 200):
            pv = mpf_value(mpmath.pi._mpf_)
        plo, phi = pv * (1 - Fraction(1, 2 ** (prec + 150))), pv * (1 + Fraction(1, 2 ** (prec + 150)))
        va = V(a) if a[1] else Fraction(0); vb = V(b) if b[1] else Fraction(0)
        if vb < phi:
            bad.append(("CONTAIN", "upper end point of mpi_atan2 is below pi although pi is attained"))
        if out[1] == 1 and va > plo:
            bad.append(("CONTAIN", "lower end point of mpi_atan2 is above pi on the negative real axis"))
        if out[1] == 3 and va > -phi:
            bad.append(("CONTAIN", "lower end point of mpi_atan2 is above -pi for a rectangle meeting the branch cut: angles next to -pi are missed"))
        if out[1] == 4 and va != 0:
            bad.append(("CONTAIN", "lower end point of mpi_atan2 is not 0 on the real axis"))
    for (cy, cx, rnd) in rec.get("calls", []):
        e_ = ang_ext(val(cy), val(cx))
        if e_ is None: continue
        lo, hi = e_
        if rnd == "f" and (V(a) if a[1] else 0) > hi:
            bad.append(("CONTAIN", "mpf_atan2 rounded towards -inf lies above atan2 at its corner: the directed-rounding hypothesis fails"))
        if rnd == "c" and (V(b) if b[1] else 0) < lo:
            bad.append(("CONTAIN", "mpf_atan2 rounded towards +inf lies below atan2 at its corner: the directed-rounding hypothesis fails"))
    for v in pts[0][:5]:
        for u in pts[1][:5]:
            if v == 0 and u == 0: continue
            if not meets(ang(v, u)):
                bad.append(("CONTAIN", "mpi_atan2 misses atan2(%s, %s)" % (v, u))); return bad
    return bad


GENS = {}
for _f in ("mpc_add", "mpc_sub", "mpc_mul", "mpc_div"): GENS[_f] = c_mpc_bin
for _f in ("mpc_square", "mpc_pos", "mpc_neg", "mpc_conjugate", "mpc_reciprocal", "mpc_sqrt", "mpc_abs", "mpc_floor",
           "mpc_ceil", "mpc_nint", "mpc_frac"): GENS[_f] = c_mpc_un
for _f in ("mpc_mul_mpf", "mpc_add_mpf", "mpc_sub_mpf", "mpc_div_mpf", "mpc_mpf_div", "mpc_mul_imag_mpf"): GENS[_f] = c_mpc_mpf
for _f in ("mpc_mul_int", "mpc_pow_int"): GENS[_f] = c_mpc_int
GENS["mpc_hash"] = c_mpc_hash
GENS["complex_int_pow"] = c_cip
for _f in ("mpi_add", "mpi_sub", "mpi_mul", "mpi_div"): GENS[_f] = c_mpi_bin
for _f in ("mpi_neg", "mpi_pos", "mpi_abs", "mpi_square", "mpi_sqrt", "mpi_delta", "mpi_mid"): GENS[_f] = c_mpi_un
GENS["mpi_pow_int"] = c_mpi_pow
for _f in ("mpi_lt", "mpi_le", "mpi_gt", "mpi_ge", "mpi_eq"): GENS[_f] = c_mpi_cmp
GENS["mpci_op"] = c_mpci
GENS["mpi_outward"] = c_mpi_outward
GENS["mpi_exp_from"] = c_mpi_exp_from
GENS["mpi_log_from"] = c_mpi_log_from
GENS["mpi_cos_sin_from"] = c_mpi_cos_sin_from
GENS["mpi_tan_from"] = c_mpi_cos_sin_from
GENS["mpi_cot_from"] = c_mpi_cos_sin_from
GENS["mpi_finalize"] = c_mpi_finalize
GENS["mpi_atan2_plan"] = c_mpi_atan2_plan
for _f in ("mpci_abs", "mpi_pow_from", "mpi_cosh_sinh_from", "mpci_exp_from", "mpci_cos_from", "mpci_sin_from"): GENS[_f] = c_compose


def make_cases(rng, fn, n):
    return [GENS[fn](rng, fn) for _ in range(n)]


# ----------------------------------------------------------------------------- spec predicates

def tup4(p, i):
    return tuple(p[4 * i:4 * i + 4])


def in_interval(x, a, b):
    """x Fraction; a, b raw tuples (possibly infinite)"""
    if a == gen.FNAN or b == gen.FNAN: return False
    if a != gen.FNINF:
        if a == gen.FINF: return False
        if x < (V(a) if a[1] else 0): return False
    if b != gen.FINF:
        if b == gen.FNINF: return False
        if x > (V(b) if b[1] else 0): return False
    return True


def sqrt_in(x, a, b):
    """sqrt(x) in [a,b] decided exactly (x >= 0)"""
    if a != gen.FNINF and a[1]:
        va = V(a)
        if va > 0 and va * va > x: return False
    if b != gen.FINF:
        vb = V(b) if b[1] else Fraction(0)
        if vb < 0 or vb * vb < x: return False
    return True


def spec_check(case, out):
    import mpfcases
    bad = []
    if out[0] != 0 or case.exact is None:
        return bad
    p = out[1:]
    kind = case.exact[0]
    K = 4
    if kind == "elemcontain":
        return elem_spec(case, out)
    if kind == "trigcontain":
        return trig_spec(case, out)
    if kind == "compose":
        return compose_spec(case, out)
    if kind == "atan2plan":
        return atan2_spec(case, out)
    if kind == "cv0":   # conjugate: real part passed through unchanged, imaginary part rounded
        t0, t1 = tup4(p, 0), tup4(p, 1)
        if not ((V(t0) if t0[1] else 0) == case.exact[1][0]): bad.append(("ROUND", "real part changed by conjugate"))
        if not value_eq_round(t1, case.exact[1][1], case.prec, case.rnd): bad.append(("ROUND", "imaginary part of conjugate misrounded"))
    elif kind in ("cv", "cv1", "cvpow"):
        for i in (0, 1):
            t = tup4(p, i)
            if not canonical(t): bad.append(("C01", "non-canonical component"))
            if case.prec and not is_special(t) and t[3] > case.prec and not (kind == "cv1" and i == 1):
                bad.append(("C10", "component has %d bits > prec %d" % (t[3], case.prec)))
            if kind == "cv1" and i == 1:
                if not (not is_special(t) and (V(t) if t[1] else 0) == case.exact[1][1]): bad.append(("ROUND", "imaginary part changed"))
            elif kind == "cvpow":
                pass
            elif not value_eq_round(t, case.exact[1][i], case.prec, case.rnd):
                bad.append(("ROUND", "component %d is not the correctly rounded exact value" % i))
    elif kind == "cspecial":
        for i in (0, 1):
            if not canonical(tup4(p, i)): bad.append(("C01", "non-canonical component (special value)"))
    elif kind == "cmod":
        re, im = tup4(p, 0), tup4(p, 1)
        if is_special(re) or is_special(im):
            bad.append(("ROUND", "non-finite quotient for finite nonzero divisor"))
        else:
            er = (V(re) if re[1] else 0) - case.exact[1][0]
            ei = (V(im) if im[1] else 0) - case.exact[1][1]
            m2 = case.exact[1][0] ** 2 + case.exact[1][1] ** 2
            if (er * er + ei * ei) * (Fraction(4) ** case.prec) > K * K * m2:
                bad.append(("ROUND", "quotient error exceeds %d ulp in modulus" % K))
        for t in (re, im):
            if not canonical(t): bad.append(("C01", "non-canonical component"))
            if case.prec and not is_special(t) and t[3] > case.prec: bad.append(("C10", "component too long"))
    elif kind == "sqrt":
        t = tup4(p, 0)
        # mpc_abs = hypot: accurate but not necessarily correctly rounded (prec+4 intermediate): 1 ulp bound
        if not is_special(t):
            y = V(t) if t[1] else Fraction(0)
            x = case.exact[1]
            lo = y * (1 - Fraction(1, 2 ** (case.prec - 1))) if case.prec > 1 else Fraction(0)
            hi = y * (1 + Fraction(1, 2 ** (case.prec - 1))) if case.prec > 1 else 4 * y
            if not (lo * lo <= x <= hi * hi) and x != 0:
                bad.append(("ROUND", "abs not within 2 ulp"))
    elif kind == "csqrt":
        re, im = tup4(p, 0), tup4(p, 1)
        if not is_special(re) and not is_special(im) and case.prec >= 4:
            a = V(re) if re[1] else Fraction(0); b = V(im) if im[1] else Fraction(0)
            x, y = case.exact[1]
            er = (a * a - b * b) - x; ei = 2 * a * b - y
            m2 = x * x + y * y
            # |w^2 - z| <= ~2*eps|z| when |w - sqrt z| <= eps |sqrt z|
            if (er * er + ei * ei) * (Fraction(4) ** case.prec) > (4 * K) ** 2 * m2:
                bad.append(("ROUND", "sqrt(z)^2 differs from z by more than %d ulp" % (4 * K)))
            if a < 0 or (a == 0 and b < 0 and False):
                bad.append(("ROUND", "sqrt not on principal branch"))
    elif kind == "ints":
        if tuple(p[:2]) != tuple(case.exact[1]): bad.append(("VALUE", "complex_int_pow wrong"))
    elif kind == "contain2":
        a, b = tup4(p, 0), tup4(p, 1)
        xs, ys, op = case.exact[1]
        for x in xs:
            for y in ys:
                v = op(x, y)
                if v is None: continue
                if not in_interval(v, a, b):
                    bad.append(("CONTAIN", "result interval misses %s op %s" % (x, y))); break
            if bad: break
        for t in (a, b):
            if not canonical(t): bad.append(("C01", "non-canonical endpoint"))
    elif kind == "contain1":
        if case.ret_mpf: return bad
        a, b = tup4(p, 0), tup4(p, 1)
        xs, op = case.exact[1]
        for x in xs:
            if op == "sqrt":
                if x < 0: continue
                ok = sqrt_in(x, a, b)
            else:
                v = op(x)
                if v is None: continue
                ok = in_interval(v, a, b)
            if not ok:
                bad.append(("CONTAIN", "result interval misses f(%s)" % x)); break
        for t in (a, b):
            if not canonical(t): bad.append(("C01", "non-canonical endpoint"))
    elif kind == "ccontain":
        ra, rb, ia, ib = tup4(p, 0), tup4(p, 1), tup4(p, 2), tup4(p, 3)
        px, py, cop = case.exact[1]
        for u in px:
            for w in py:
                v = cop(u, w)
                if v is None: continue
                if not (in_interval(v[0], ra, rb) and in_interval(v[1], ia, ib)):
                    bad.append(("CONTAIN", "complex interval result misses a point")); break
            if bad: break
    elif kind == "ivcmp":
        s, t = case.exact[1]
        def ev(x, lo):
            if x == gen.FNINF: return -math.inf
            if x == gen.FINF: return math.inf
            return V(x) if x[1] else Fraction(0)
        sa, sb, ta, tb = ev(s[0], 1), ev(s[1], 0), ev(t[0], 1), ev(t[1], 0)
        got = p[0]
        fn = case.fn
        if fn in ("mpi_gt", "mpi_ge"):
            sa, sb, ta, tb = ta, tb, sa, sb
            fn = {"mpi_gt": "mpi_lt", "mpi_ge": "mpi_le"}[fn]
        if fn == "mpi_lt":
            all_true = sb < ta; all_false = sa >= tb
        elif fn == "mpi_le":
            all_true = sb <= ta; all_false = sa > tb
        else:
            want = int(s == t)
            if got != want: bad.append(("IVCMP", "mpi_eq wrong"))
            return bad
        if got == 1 and not all_true: bad.append(("IVCMP", "True returned but relation fails for some pair"))
        if got == 0 and not all_false: bad.append(("IVCMP", "False returned but relation holds for some pair"))
        if got == -1 and (all_true or all_false): bad.append(("IVCMP", "None returned although the relation is decided"))
    return bad
