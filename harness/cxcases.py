"""Cases for the complex (libmpc) and interval (libmpi) models, with search-side spec predicates
(component-wise correct rounding, modulus error bound, interval containment, three-valued comparisons)."""
from fractions import Fraction
import math
from common import *
import gen
from mpfcases import Case, r2i, V, fv, fin

import mpmath.libmp.libmpf as L
import mpmath.libmp.libmpc as C
import mpmath.libmp.libmpi as I


def modest(rng, prec, bits=None, special_p=0.04):
    t = gen.value(rng, prec, special_p)
    if fin(t) and t[1]:
        t = (t[0], t[1], t[2] % 600 - 300, t[3])
    return t


def cval(rng, prec):
    k = rng.randrange(6)
    a = modest(rng, prec); b = modest(rng, prec)
    if k == 0: b = gen.FZERO
    if k == 1: a = gen.FZERO
    if k == 2 and fin(a) and a[1]:   # comparable magnitudes (cancellation in products)
        b = gen.norm(rng.randrange(2), gen.mant(rng, rng.randint(1, 120), prec), a[2] + a[3] - rng.randint(1, 120))
    return (a, b)


def flat(*zs):
    out = []
    for z in zs:
        for part in z:
            out += list(part)
    return out


def cfv(z):
    return fv(z[0]) and fv(z[1])


def CV(z):
    return (V(z[0]), V(z[1]))


def c_mpc_bin(rng, fn):
    prec = gen.pick_prec(rng, allow_zero=fn in ("mpc_add", "mpc_sub"))
    if prec > 1000: prec = 300
    rnd = rng.choice(RND)
    z = cval(rng, prec); w = cval(rng, prec)
    f = getattr(C, fn)
    exact = None
    if cfv(z) and cfv(w):
        (a, b), (c, d) = CV(z), CV(w)
        if fn == "mpc_add": exact = ("cv", (a + c, b + d))
        elif fn == "mpc_sub": exact = ("cv", (a - c, b - d))
        elif fn == "mpc_mul": exact = ("cv", (a * c - b * d, a * d + b * c))
        elif fn == "mpc_div" and (c or d):
            m = c * c + d * d
            exact = ("cmod", ((a * c + b * d) / m, (b * c - a * d) / m))
    if fn == "mpc_div" and prec == 0: prec = 53
    return Case(fn, flat(z, w) + [prec, r2i(rnd)], lambda: call_impl(f, z, w, prec, rnd), exact, prec, rnd, desc=(z, w))


def c_mpc_un(rng, fn):
    prec = gen.pick_prec(rng, allow_zero=fn in ("mpc_neg", "mpc_pos", "mpc_conjugate"))
    if prec > 1000: prec = 300
    rnd = rng.choice(RND)
    z = cval(rng, prec)
    if fn in ("mpc_floor", "mpc_ceil", "mpc_nint", "mpc_frac"):
        from mpfcases import int_like
        z = (int_like(rng, prec or 53), int_like(rng, prec or 53))
        z = tuple((t[0], t[1], t[2] % 600 - 300, t[3]) if fin(t) and t[1] else t for t in z)
    f = getattr(C, fn)
    exact = None
    if cfv(z):
        a, b = CV(z)
        if fn == "mpc_square": exact = ("cv", (a * a - b * b, 2 * a * b))
        elif fn == "mpc_pos": exact = ("cv", (a, b))
        elif fn == "mpc_neg": exact = ("cv", (-a, -b))
        elif fn == "mpc_conjugate": exact = ("cv0", (a, -b))
        elif fn == "mpc_reciprocal" and (a or b):
            m = a * a + b * b
            exact = ("cmod", (a / m, -b / m))
        elif fn == "mpc_floor": exact = ("cv", (Fraction(math.floor(a)), Fraction(math.floor(b))))
        elif fn == "mpc_ceil": exact = ("cv", (Fraction(math.ceil(a)), Fraction(math.ceil(b))))
        elif fn == "mpc_frac": exact = ("cv", (a - math.floor(a), b - math.floor(b)))
        elif fn == "mpc_abs": exact = ("sqrt", a * a + b * b)
        elif fn == "mpc_sqrt" and (a or b): exact = ("csqrt", (a, b))
    if fn in ("mpc_reciprocal", "mpc_abs", "mpc_sqrt", "mpc_square") and prec == 0: prec = 53
    ret_mpf = fn == "mpc_abs"
    c = Case(fn, flat(z) + [prec, r2i(rnd)], lambda: call_impl(f, z, prec, rnd), exact, prec, rnd, desc=(z,), ret_mpf=ret_mpf)
    return c


def c_mpc_mpf(rng, fn):
    prec = gen.pick_prec(rng)
    if prec > 1000: prec = 300
    rnd = rng.choice(RND)
    z = cval(rng, prec); x = modest(rng, prec)
    f = getattr(C, fn)
    exact = None
    if cfv(z) and fv(x):
        (a, b), p = CV(z), V(x)
        if fn == "mpc_mul_mpf": exact = ("cv", (a * p, b * p))
        elif fn == "mpc_add_mpf": exact = ("cv1", (a + p, b))
        elif fn == "mpc_sub_mpf": exact = ("cv1", (a - p, b))
        elif fn == "mpc_div_mpf" and p: exact = ("cv", (a / p, b / p))
        elif fn == "mpc_mul_imag_mpf": exact = None   # internal helper: rounds b*x then negates (no public claim)
        elif fn == "mpc_mpf_div" and (a or b):
            m = a * a + b * b
            exact = ("cmod", (a * p / m, -b * p / m))
    if fn == "mpc_mpf_div":
        return Case(fn, list(x) + flat(z) + [prec, r2i(rnd)], lambda: call_impl(f, x, z, prec, rnd), exact, prec, rnd)
    return Case(fn, flat(z) + list(x) + [prec, r2i(rnd)], lambda: call_impl(f, z, x, prec, rnd), exact, prec, rnd)


def c_mpc_int(rng, fn):
    prec = gen.pick_prec(rng)
    if prec > 1000: prec = 300
    rnd = rng.choice(RND)
    if fn == "mpc_mul_int":
        z = cval(rng, prec); n = gen.small_int(rng)
        exact = ("cv", (CV(z)[0] * n, CV(z)[1] * n)) if cfv(z) else None
        return Case(fn, flat(z) + [n, prec, r2i(rnd)], lambda: call_impl(C.mpc_mul_int, z, n, prec, rnd), exact, prec, rnd)
    # mpc_pow_int: stay on the modelled branches (exact_size < 10000 or pure real/imaginary)
    k = rng.randrange(5)
    a = gen.norm(rng.randrange(2), gen.mant(rng, rng.randint(1, 40), prec), rng.randint(-20, 20))
    b = gen.norm(rng.randrange(2), gen.mant(rng, rng.randint(1, 40), prec), rng.randint(-20, 20))
    if k == 0: b = gen.FZERO
    if k == 1: a = gen.FZERO
    if rng.random() < 0.12:      # purely real / imaginary bases with special values
        sp = rng.choice([gen.FINF, gen.FNINF, gen.FNAN])
        a, b = (sp, gen.FZERO) if rng.random() < 0.5 else (gen.FZERO, sp)
    z = (a, b)
    n = rng.choice([-7, -3, -2, -1, 0, 1, 2, 3, 4, 5, 8, 13, 16, 31, 50, 100])
    if is_special(a) or is_special(b):
        return Case(fn, flat(z) + [n, prec, r2i(rnd)], lambda: call_impl(C.mpc_pow_int, z, n, prec, rnd), ("cspecial",), prec, rnd, desc=(z, n))
    if a[1] and b[1]:
        de = abs(a[2] - b[2])
        size = abs(n) * (de + max(a[3], b[3]))
        if size >= 10000:
            n = max(3, 9000 // (de + max(a[3], b[3])))
    exact = None
    aa, bb = CV(z)
    if n >= 0 or aa or bb:
        if n >= 0:
            re, im = Fraction(1), Fraction(0)
            for _ in range(n):
                re, im = re * aa - im * bb, re * bb + im * aa
            exact = ("cv", (re, im)) if (a[1] and b[1]) or n >= 0 else None
            if not (a[1] and b[1]) and n >= 0:
                exact = ("cvpow", (re, im))
        else:
            re, im = Fraction(1), Fraction(0)
            for _ in range(-n):
                re, im = re * aa - im * bb, re * bb + im * aa
            m = re * re + im * im
            exact = ("cmod", (re / m, -im / m))
    return Case(fn, flat(z) + [n, prec, r2i(rnd)], lambda: call_impl(C.mpc_pow_int, z, n, prec, rnd), exact, prec, rnd, desc=(z, n))


def c_mpc_hash(rng, fn):
    z = (gen.value(rng, 53, 0.1), gen.value(rng, 53, 0.1))
    if rng.random() < 0.5:
        z = (gen.norm(rng.randrange(2), rng.randint(1, 5), rng.randint(-3, 3)), gen.norm(rng.randrange(2), rng.randint(1, 5), rng.randint(-3, 3)))
    if rng.random() < 0.3: z = (z[0], gen.FZERO)
    return Case(fn, flat(z), lambda: call_impl(C.mpc_hash, z), None, None, None, rounded=False, ret_mpf=False, desc=(z,))


def c_cip(rng, fn):
    a = rng.randint(-10**6, 10**6); b = rng.randint(-10**6, 10**6); n = rng.randint(0, 40)
    re, im = 1, 0
    for _ in range(n):
        re, im = re * a - im * b, re * b + im * a
    return Case(fn, [a, b, n], lambda: call_impl(C.complex_int_pow, a, b, n), ("ints", (re, im)), rounded=False, ret_mpf=False)


# ----------------------------------------------------------------------------- intervals

def ival(rng, prec, allow_inf=True):
    k = rng.randrange(10)
    def f(bits=None):
        t = gen.finite(rng, prec, bits=bits or rng.choice([1, 3, 10, 53, 80, 200]))
        return (t[0], t[1], t[2] % 200 - 100, t[3])
    a = f(); b = f()
    if k == 0: b = a                                   # point
    if k == 1: a = gen.FZERO
    if k == 2: b = gen.FZERO
    if k == 3: a = gen.FZERO; b = gen.FZERO
    if k == 4 and allow_inf: a = gen.FNINF
    if k == 5 and allow_inf: b = gen.FINF
    if k == 6:                                         # narrow
        sh = rng.randint(1, 120)
        b = gen.norm(a[0], (a[1] << sh) + 1, a[2] - sh)
    va = -math.inf if a == gen.FNINF else (0 if not a[1] else V(a))
    vb = math.inf if b == gen.FINF else (0 if not b[1] else V(b))
    if va > vb: a, b = b, a
    return (a, b)


def ends(s):
    lo = None if s[0] == gen.FNINF else V(s[0])
    hi = None if s[1] == gen.FINF else V(s[1])
    return lo, hi


def points(rng, s):
    lo, hi = ends(s)
    if lo is None and hi is None: return [Fraction(0), Fraction(-10**9), Fraction(10**9), Fraction(rng.randint(-100, 100), 7)]
    if lo is None: return [hi, hi - 1, hi - Fraction(10**12), hi - Fraction(1, 10**6)]
    if hi is None: return [lo, lo + 1, lo + Fraction(10**12), lo + Fraction(1, 10**6)]
    pts = [lo, hi, (lo + hi) / 2]
    for _ in range(3):
        pts.append(lo + (hi - lo) * Fraction(rng.randint(0, 1000), 1000))
    if lo < 0 < hi: pts.append(Fraction(0))
    return pts


def c_mpi_bin(rng, fn):
    prec = gen.pick_prec(rng, allow_zero=fn != "mpi_div")
    if prec > 1000: prec = 300
    s = ival(rng, prec); t = ival(rng, prec)
    f = getattr(I, fn)
    op = {"mpi_add": lambda x, y: x + y, "mpi_sub": lambda x, y: x - y, "mpi_mul": lambda x, y: x * y,
          "mpi_div": lambda x, y: x / y if y != 0 else None}[fn]
    exact = ("contain2", (points(rng, s), points(rng, t), op))
    return Case(fn, flat(s, t) + [prec], lambda: call_impl(f, s, t, prec), exact, prec, None, desc=(s, t))


def c_mpi_un(rng, fn):
    prec = gen.pick_prec(rng, allow_zero=fn in ("mpi_neg", "mpi_abs", "mpi_square", "mpi_pos"))
    if prec > 1000: prec = 300
    s = ival(rng, prec, allow_inf=fn not in ("mpi_delta", "mpi_mid"))
    if fn == "mpi_sqrt":
        s = (s[0] if s[0][0] == 0 else gen.FZERO, s[1] if s[1][0] == 0 else L.mpf_neg(s[1]))
        if s[1] != gen.FINF and s[0][1] and V(s[0]) > V(s[1]): s = (s[1], s[0])
        if prec == 0: prec = 53
    f = getattr(I, fn)
    op = {"mpi_neg": lambda x: -x, "mpi_abs": abs, "mpi_square": lambda x: x * x, "mpi_pos": lambda x: x,
          "mpi_sqrt": "sqrt", "mpi_delta": None, "mpi_mid": None}[fn]
    exact = ("contain1", (points(rng, s), op)) if op is not None else None
    ret_pair = fn not in ("mpi_delta", "mpi_mid")
    if not ret_pair and prec == 0: prec = 53
    c = Case(fn, flat(s) + [prec], lambda: call_impl(f, s, prec), exact, prec, None, desc=(s,), ret_mpf=not ret_pair)
    if not ret_pair: c.rounded = True
    return c


def c_mpi_pow(rng, fn):
    prec = gen.pick_prec(rng)
    if prec > 1000: prec = 300
    s = ival(rng, prec, allow_inf=False)
    s = tuple((t[0], t[1], t[2] % 40 - 20, t[3]) if t[1] else t for t in s)
    if s[0][1] and s[1][1] and V(s[0]) > V(s[1]): s = (s[1], s[0])
    elif s[0][1] and not s[1][1] and V(s[0]) > 0: s = (s[1], s[0])
    elif s[1][1] and not s[0][1] and V(s[1]) < 0: s = (s[1], s[0])
    n = rng.choice([-5, -4, -3, -2, -1, 0, 1, 2, 3, 4, 5, 6, 7, 10, 11, 30, 31, 100, 101])
    def op(x, n=n):
        if n < 0 and x == 0: return None
        return x ** n
    exact = ("contain1", (points(rng, s), op))
    return Case(fn, flat(s) + [n, prec], lambda: call_impl(I.mpi_pow_int, s, n, prec), exact, prec, None, desc=(s, n))


def c_mpi_cmp(rng, fn):
    k = rng.randrange(5)
    s = ival(rng, 53); t = ival(rng, 53)
    if k == 0: t = (s[1], t[1]) if t[1] == gen.FINF or (s[1] != gen.FINF and (not t[1][1] and V(s[1]) <= 0 or t[1][1] and s[1] != gen.FNINF and (0 if not s[1][1] else V(s[1])) <= V(t[1]))) else t   # touching
    if k == 1: t = s
    if k == 2: t = (s[0], s[0]) if s[0] != gen.FNINF else t
    f = getattr(I, fn)
    def thunk():
        try:
            v = f(s, t)
            return [0, -1 if v is None else int(v)]
        except Exception as e:
            return enc_exc(e)
    return Case(fn, flat(s, t), thunk, ("ivcmp", (s, t)), None, None, rounded=False, ret_mpf=False, desc=(s, t))


def c_mpci(rng, fn):
    prec = rng.choice([5, 24, 53, 100])
    op = rng.randrange(7)
    def civ():
        return (ival(rng, prec, allow_inf=False), ival(rng, prec, allow_inf=False))
    x = civ(); y = civ()
    n = rng.choice([-3, -2, -1, 0, 1, 2, 3, 4, 5, 9])
    if op == 6:
        y = ((( n if n >= 0 else n, 0, 0, 0), gen.FZERO), (gen.FZERO, gen.FZERO))
    fs = {0: lambda: I.mpci_add(x, y, prec), 1: lambda: I.mpci_sub(x, y, prec), 2: lambda: I.mpci_mul(x, y, prec),
          3: lambda: I.mpci_div(x, y, prec), 4: lambda: I.mpci_square(x, prec), 5: lambda: I.mpci_neg(x, prec),
          6: lambda: I.mpci_pow_int(x, n, prec)}
    def cop(p, q, op=op, n=n):
        (a, b), (c, d) = p, q
        if op == 0: return (a + c, b + d)
        if op == 1: return (a - c, b - d)
        if op == 2: return (a * c - b * d, a * d + b * c)
        if op == 3:
            m = c * c + d * d
            if m == 0: return None
            return ((a * c + b * d) / m, (b * c - a * d) / m)
        if op == 4: return (a * a - b * b, 2 * a * b)
        if op == 5: return (-a, -b)
        re, im = Fraction(1), Fraction(0)
        for _ in range(abs(n)):
            re, im = re * a - im * b, re * b + im * a
        if n < 0:
            m = re * re + im * im
            if m == 0: return None
            return (re / m, -im / m)
        return (re, im)
    px = [(u, v) for u in points(rng, x[0])[:4] for v in points(rng, x[1])[:4]]
    py = [(u, v) for u in points(rng, y[0])[:3] for v in points(rng, y[1])[:3]] if op < 4 else [(Fraction(0), Fraction(0))]
    margs = [op]
    for part in (x[0], x[1], y[0], y[1]):
        margs += flat(part)
    margs.append(prec)
    def thunk():
        try:
            v = fs[op]()
            return [0] + flat(v[0], v[1])
        except Exception as e:
            return enc_exc(e)
    return Case(fn, margs, thunk, ("ccontain", (px, py, cop)), prec, None, rounded=False, ret_mpf=False, desc=(x, y, op, n))


GENS = {}
for _f in ("mpc_add", "mpc_sub", "mpc_mul", "mpc_div"): GENS[_f] = c_mpc_bin
for _f in ("mpc_square", "mpc_pos", "mpc_neg", "mpc_conjugate", "mpc_reciprocal", "mpc_sqrt", "mpc_abs", "mpc_floor",
           "mpc_ceil", "mpc_nint", "mpc_frac"): GENS[_f] = c_mpc_un
for _f in ("mpc_mul_mpf", "mpc_add_mpf", "mpc_sub_mpf", "mpc_div_mpf", "mpc_mpf_div", "mpc_mul_imag_mpf"): GENS[_f] = c_mpc_mpf
for _f in ("mpc_mul_int", "mpc_pow_int"): GENS[_f] = c_mpc_int
GENS["mpc_hash"] = c_mpc_hash
GENS["complex_int_pow"] = c_cip
for _f in ("mpi_add", "mpi_sub", "mpi_mul", "mpi_div"): GENS[_f] = c_mpi_bin
for _f in ("mpi_neg", "mpi_pos", "mpi_abs", "mpi_square", "mpi_sqrt", "mpi_delta", "mpi_mid"): GENS[_f] = c_mpi_un
GENS["mpi_pow_int"] = c_mpi_pow
for _f in ("mpi_lt", "mpi_le", "mpi_gt", "mpi_ge", "mpi_eq"): GENS[_f] = c_mpi_cmp
GENS["mpci_op"] = c_mpci


def make_cases(rng, fn, n):
    return [GENS[fn](rng, fn) for _ in range(n)]


# ----------------------------------------------------------------------------- spec predicates

def tup4(p, i):
    return tuple(p[4 * i:4 * i + 4])


def in_interval(x, a, b):
    """x Fraction; a, b raw tuples (possibly infinite)"""
    if a == gen.FNAN or b == gen.FNAN: return False
    if a != gen.FNINF:
        if a == gen.FINF: return False
        if x < (V(a) if a[1] else 0): return False
    if b != gen.FINF:
        if b == gen.FNINF: return False
        if x > (V(b) if b[1] else 0): return False
    return True


def sqrt_in(x, a, b):
    """sqrt(x) in [a,b] decided exactly (x >= 0)"""
    if a != gen.FNINF and a[1]:
        va = V(a)
        if va > 0 and va * va > x: return False
    if b != gen.FINF:
        vb = V(b) if b[1] else Fraction(0)
        if vb < 0 or vb * vb < x: return False
    return True


def spec_check(case, out):
    import mpfcases
    bad = []
    if out[0] != 0 or case.exact is None:
        return bad
    p = out[1:]
    kind = case.exact[0]
    K = 4
    if kind == "cv0":   # conjugate: real part passed through unchanged, imaginary part rounded
        t0, t1 = tup4(p, 0), tup4(p, 1)
        if not ((V(t0) if t0[1] else 0) == case.exact[1][0]): bad.append(("ROUND", "real part changed by conjugate"))
        if not value_eq_round(t1, case.exact[1][1], case.prec, case.rnd): bad.append(("ROUND", "imaginary part of conjugate misrounded"))
    elif kind in ("cv", "cv1", "cvpow"):
        for i in (0, 1):
            t = tup4(p, i)
            if not canonical(t): bad.append(("C01", "non-canonical component"))
            if case.prec and not is_special(t) and t[3] > case.prec and not (kind == "cv1" and i == 1):
                bad.append(("C10", "component has %d bits > prec %d" % (t[3], case.prec)))
            if kind == "cv1" and i == 1:
                if not (not is_special(t) and (V(t) if t[1] else 0) == case.exact[1][1]): bad.append(("ROUND", "imaginary part changed"))
            elif kind == "cvpow":
                pass
            elif not value_eq_round(t, case.exact[1][i], case.prec, case.rnd):
                bad.append(("ROUND", "component %d is not the correctly rounded exact value" % i))
    elif kind == "cspecial":
        for i in (0, 1):
            if not canonical(tup4(p, i)): bad.append(("C01", "non-canonical component (special value)"))
    elif kind == "cmod":
        re, im = tup4(p, 0), tup4(p, 1)
        if is_special(re) or is_special(im):
            bad.append(("ROUND", "non-finite quotient for finite nonzero divisor"))
        else:
            er = (V(re) if re[1] else 0) - case.exact[1][0]
            ei = (V(im) if im[1] else 0) - case.exact[1][1]
            m2 = case.exact[1][0] ** 2 + case.exact[1][1] ** 2
            if (er * er + ei * ei) * (Fraction(4) ** case.prec) > K * K * m2:
                bad.append(("ROUND", "quotient error exceeds %d ulp in modulus" % K))
        for t in (re, im):
            if not canonical(t): bad.append(("C01", "non-canonical component"))
            if case.prec and not is_special(t) and t[3] > case.prec: bad.append(("C10", "component too long"))
    elif kind == "sqrt":
        t = tup4(p, 0)
        # mpc_abs = hypot: accurate but not necessarily correctly rounded (prec+4 intermediate): 1 ulp bound
        if not is_special(t):
            y = V(t) if t[1] else Fraction(0)
            x = case.exact[1]
            lo = y * (1 - Fraction(1, 2 ** (case.prec - 1))) if case.prec > 1 else Fraction(0)
            hi = y * (1 + Fraction(1, 2 ** (case.prec - 1))) if case.prec > 1 else 4 * y
            if not (lo * lo <= x <= hi * hi) and x != 0:
                bad.append(("ROUND", "abs not within 2 ulp"))
    elif kind == "csqrt":
        re, im = tup4(p, 0), tup4(p, 1)
        if not is_special(re) and not is_special(im) and case.prec >= 4:
            a = V(re) if re[1] else Fraction(0); b = V(im) if im[1] else Fraction(0)
            x, y = case.exact[1]
            er = (a * a - b * b) - x; ei = 2 * a * b - y
            m2 = x * x + y * y
            # |w^2 - z| <= ~2*eps|z| when |w - sqrt z| <= eps |sqrt z|
            if (er * er + ei * ei) * (Fraction(4) ** case.prec) > (4 * K) ** 2 * m2:
                bad.append(("ROUND", "sqrt(z)^2 differs from z by more than %d ulp" % (4 * K)))
            if a < 0 or (a == 0 and b < 0 and False):
                bad.append(("ROUND", "sqrt not on principal branch"))
    elif kind == "ints":
        if tuple(p[:2]) != tuple(case.exact[1]): bad.append(("VALUE", "complex_int_pow wrong"))
    elif kind == "contain2":
        a, b = tup4(p, 0), tup4(p, 1)
        xs, ys, op = case.exact[1]
        for x in xs:
            for y in ys:
                v = op(x, y)
                if v is None: continue
                if not in_interval(v, a, b):
                    bad.append(("CONTAIN", "result interval misses %s op %s" % (x, y))); break
            if bad: break
        for t in (a, b):
            if not canonical(t): bad.append(("C01", "non-canonical endpoint"))
    elif kind == "contain1":
        if case.ret_mpf: return bad
        a, b = tup4(p, 0), tup4(p, 1)
        xs, op = case.exact[1]
        for x in xs:
            if op == "sqrt":
                if x < 0: continue
                ok = sqrt_in(x, a, b)
            else:
                v = op(x)
                if v is None: continue
                ok = in_interval(v, a, b)
            if not ok:
                bad.append(("CONTAIN", "result interval misses f(%s)" % x)); break
        for t in (a, b):
            if not canonical(t): bad.append(("C01", "non-canonical endpoint"))
    elif kind == "ccontain":
        ra, rb, ia, ib = tup4(p, 0), tup4(p, 1), tup4(p, 2), tup4(p, 3)
        px, py, cop = case.exact[1]
        for u in px:
            for w in py:
                v = cop(u, w)
                if v is None: continue
                if not (in_interval(v[0], ra, rb) and in_interval(v[1], ia, ib)):
                    bad.append(("CONTAIN", "complex interval result misses a point")); break
            if bad: break
    elif kind == "ivcmp":
        s, t = case.exact[1]
        def ev(x, lo):
            if x == gen.FNINF: return -math.inf
            if x == gen.FINF: return math.inf
            return V(x) if x[1] else Fraction(0)
        sa, sb, ta, tb = ev(s[0], 1), ev(s[1], 0), ev(t[0], 1), ev(t[1], 0)
        got = p[0]
        fn = case.fn
        if fn in ("mpi_gt", "mpi_ge"):
            sa, sb, ta, tb = ta, tb, sa, sb
            fn = {"mpi_gt": "mpi_lt", "mpi_ge": "mpi_le"}[fn]
        if fn == "mpi_lt":
            all_true = sb < ta; all_false = sa >= tb
        elif fn == "mpi_le":
            all_true = sb <= ta; all_false = sa > tb
        else:
            want = int(s == t)
            if got != want: bad.append(("IVCMP", "mpi_eq wrong"))
            return bad
        if got == 1 and not all_true: bad.append(("IVCMP", "True returned but relation fails for some pair"))
        if got == 0 and not all_false: bad.append(("IVCMP", "False returned but relation holds for some pair"))
        if got == -1 and (all_true or all_false): bad.append(("IVCMP", "None returned although the relation is decided"))
    return bad
