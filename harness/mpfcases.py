"""Case construction for the raw libmpf functions: for every function the model-side request,
the implementation-side call and (where defined) the exact mathematical result used by the
search-side spec predicates."""
from fractions import Fraction
import math
from common import *
import gen

import mpmath.libmp.libmpf as L
import mpmath.libmp.libintmath as LI


def V(t):
    return mpf_value(t)


def fin(t):
    return not is_special(t)


def fv(t):
    """finite and small enough exponent for exact rational arithmetic on the search side"""
    return not is_special(t) and abs(t[2]) < 200000


class Case:
    __slots__ = ("fn", "margs", "thunk", "exact", "prec", "rnd", "rounded", "desc", "ret_mpf")

    def __init__(self, fn, margs, thunk, exact=None, prec=None, rnd=None, rounded=True, desc=None, ret_mpf=True):
        self.fn = fn; self.margs = margs; self.thunk = thunk; self.exact = exact
        self.prec = prec; self.rnd = rnd; self.rounded = rounded; self.desc = desc; self.ret_mpf = ret_mpf

    def replay(self):
        return {"fn": self.fn, "args_hex": [hexz(a) for a in self.margs] if self.margs is not None else None,
                "desc": small(self.desc) if (self.margs is None or self.fn.startswith("from_str")) else None,
                "prec": self.prec, "rnd": self.rnd}


def r2i(r):
    return RND.index(r)


def c_binop(rng, fn):
    prec = gen.pick_prec(rng, allow_zero=fn in ("mpf_add", "mpf_sub", "mpf_mul", "gmpy_mpf_mul"))
    rnd = rng.choice(RND)
    s, t = gen.pair(rng, prec)
    if fn in ("mpf_add", "mpf_sub") and prec and rng.random() < 0.35:
        s, t = add_boundary(rng, prec)
    if prec == 0 and fin(s) and fin(t) and s[1] and t[1] and abs((s[2]) - (t[2])) > 5000:
        t = (t[0], t[1], s[2] + rng.randint(-3000, 3000), t[3])
    f = {"mpf_add": L.mpf_add, "mpf_sub": L.mpf_sub, "mpf_mul": L.python_mpf_mul,
         "gmpy_mpf_mul": L.gmpy_mpf_mul, "mpf_div": L.mpf_div, "mpf_mod": L.mpf_mod,
         "mpf_hypot": L.mpf_hypot}[fn]
    exact = None
    if fv(s) and fv(t):
        if fn == "mpf_add": exact = ("v", V(s) + V(t)) if small_gap(s, t) else None
        elif fn == "mpf_sub": exact = ("v", V(s) - V(t)) if small_gap(s, t) else None
        elif fn in ("mpf_mul", "gmpy_mpf_mul"): exact = ("v", V(s) * V(t)) if abs(s[2] + t[2]) < 10**5 else None
        elif fn == "mpf_div" and t[1] and abs(s[2] - t[2]) < 10**5: exact = ("v", V(s) / V(t))
        elif fn == "mpf_mod" and t[1] and small_gap(s, t, 20000):
            x, y = V(s), V(t)
            exact = ("v", x - y * math.floor(x / y))
    if fn == "mpf_hypot":
        if prec == 0: prec = 53
        if s[1] and t[1] and abs(s[2] - t[2]) > 20000:
            t = (t[0], t[1], s[2] + rng.randint(-300, 300), t[3])
    if fn in ("mpf_div", "mpf_mod") and prec == 0:
        prec = 53
    if fn == "mpf_mod" and not small_gap(s, t, 3000):
        # far-apart exponents make the implementation itself build 2^(10^6)-bit integers
        s = (s[0], s[1], s[2] % 2000 - 1000 if s[1] else s[2], s[3])
        t = (t[0], t[1], t[2] % 2000 - 1000 if t[1] else t[2], t[3])
        exact = None
        if fv(s) and fv(t) and t[1]:
            x, y = V(s), V(t)
            exact = ("v", x - y * math.floor(x / y))
    return Case(fn, list(s) + list(t) + [prec, r2i(rnd)], lambda: call_impl(f, s, t, prec, rnd),
                exact, prec, rnd, desc=(s, t))


def small_gap(s, t, lim=10**5):
    if not s[1] or not t[1]:
        return abs(s[2]) < lim and abs(t[2]) < lim
    return abs(s[2] - t[2]) < lim and abs(s[2]) < 10**7


def c_unop(rng, fn):
    prec = gen.pick_prec(rng, allow_zero=True)
    rnd = rng.choice(RND)
    s = gen.value(rng, prec)
    f = {"mpf_pos": L.mpf_pos, "mpf_neg": L.mpf_neg, "mpf_abs": L.mpf_abs}[fn]
    exact = None
    if fin(s) and abs(s[2]) < 10**5:
        v = V(s)
        exact = ("v", {"mpf_pos": v, "mpf_neg": -v, "mpf_abs": abs(v)}[fn])
    return Case(fn, list(s) + [prec, r2i(rnd)], lambda: call_impl(f, s, prec, rnd), exact, prec, rnd, desc=(s,))


def c_normalize(rng, fn):
    prec = gen.pick_prec(rng)
    rnd = rng.choice(RND)
    bits = gen.pick_bits(rng)
    man = gen.mant(rng, bits, prec)
    if fn == "normalize1":
        man |= 1
    elif rng.random() < 0.3:
        man <<= rng.choice([1, 2, 7, 8, 9, 16, 17, 40])
    sign = rng.randrange(2)
    exp = gen.pick_exp(rng)
    bc = man.bit_length()
    f = L.normalize if fn == "normalize" else L.normalize1
    exact = ("v", (-1) ** sign * Fraction(man) * Fraction(2) ** exp) if abs(exp) < 10**5 else None
    return Case(fn, [sign, man, exp, bc, prec, r2i(rnd)], lambda: call_impl(f, sign, man, exp, bc, prec, rnd),
                exact, prec, rnd)


def c_from_man_exp(rng, fn):
    prec = gen.pick_prec(rng, allow_zero=True)
    rnd = rng.choice(RND)
    bits = gen.pick_bits(rng)
    man = gen.mant(rng, bits, prec or None)
    r = rng.random()
    if r < 0.3: man <<= rng.choice([1, 2, 7, 8, 9, 16, 17, 40])
    if r > 0.95: man = rng.randint(0, 1100)
    if rng.random() < 0.5: man = -man
    if fn == "from_int":
        return Case(fn, [man, prec, r2i(rnd)], lambda: call_impl(L.from_int, man, prec, rnd),
                    ("v", Fraction(man)), prec, rnd)
    exp = gen.pick_exp(rng)
    exact = ("v", Fraction(man) * Fraction(2) ** exp) if abs(exp) < 10**5 else None
    return Case(fn, [man, exp, prec, r2i(rnd)], lambda: call_impl(L.from_man_exp, man, exp, prec, rnd),
                exact, prec, rnd)


def c_mul_int(rng, fn):
    prec = gen.pick_prec(rng)
    rnd = rng.choice(RND)
    s = gen.value(rng, prec)
    n = gen.small_int(rng)
    f = L.python_mpf_mul_int if fn == "mpf_mul_int" else L.gmpy_mpf_mul_int
    exact = ("v", V(s) * n) if fv(s) else None
    return Case(fn, list(s) + [n, prec, r2i(rnd)], lambda: call_impl(f, s, n, prec, rnd), exact, prec, rnd)


def c_rdiv_int(rng, fn):
    prec = gen.pick_prec(rng)
    rnd = rng.choice(RND)
    t = gen.value(rng, prec)
    n = gen.small_int(rng)
    if rng.random() < 0.2 and fin(t) and t[1] and t[2] >= 0 and t[2] < 200:
        n = int(V(t)) * rng.randint(-50, 50)      # exact quotient
    exact = ("v", Fraction(n) / V(t)) if fv(t) and t[1] else None
    return Case(fn, [n] + list(t) + [prec, r2i(rnd)], lambda: call_impl(L.mpf_rdiv_int, n, t, prec, rnd),
                exact, prec, rnd)


def c_from_rational(rng, fn):
    prec = gen.pick_prec(rng)
    rnd = rng.choice(RND)
    p = gen.small_int(rng)
    q = gen.small_int(rng)
    r = rng.random()
    if r < 0.2 and q: p = q * rng.randint(-1000, 1000)
    if r > 0.8: q = 1 << rng.randint(0, 70)
    exact = ("v", Fraction(p, q)) if q else None
    return Case(fn, [p, q, prec, r2i(rnd)], lambda: call_impl(L.from_rational, p, q, prec, rnd), exact, prec, rnd)


def c_div_directed(rng, fn="mpf_div"):
    """mpf_div with exact / near-exact quotients and power-of-two divisors."""
    prec = gen.pick_prec(rng)
    rnd = rng.choice(RND)
    t = gen.finite(rng, prec, bits=rng.randint(1, 120))
    k = rng.randrange(4)
    qbits = rng.choice([prec, prec + 1, max(1, prec - 1), rng.randint(1, 200)])
    q = gen.mant(rng, max(1, qbits), prec) | 1
    if k == 0:
        num = q * t[1]
    elif k == 1:
        num = q * t[1] + rng.choice([1, -1])
    elif k == 2:
        num = q * t[1] + rng.choice([1, -1]) * rng.randint(1, max(1, t[1] - 1))
    else:
        t = (t[0], 1, t[2], 1); num = q
    if num <= 0: num = q * t[1] + 1
    s = gen.norm(rng.randrange(2), num, gen.pick_exp(rng) % 2000 - 1000)
    t = (t[0], t[1], t[2] % 2000 - 1000, t[3])
    exact = ("v", V(s) / V(t))
    return Case(fn, list(s) + list(t) + [prec, r2i(rnd)], lambda: call_impl(L.mpf_div, s, t, prec, rnd),
                exact, prec, rnd, desc=(s, t))


def c_sqrt(rng, fn):
    prec = gen.pick_prec(rng)
    if rng.random() < 0.35: prec = rng.randint(1, 64)
    rnd = rng.choice(RND)
    k = rng.randrange(6)
    if k == 0:
        s = gen.value(rng, prec)
    elif k in (1, 2, 3):
        # perfect square, square +- 1, at sizes around 2*prec
        rb = rng.choice([prec, prec + 1, max(1, prec - 1), rng.randint(1, 150), rng.randint(20, 60)])
        root = gen.mant(rng, max(1, rb), prec)
        sq = root * root + (0 if k == 1 else rng.choice([1, -1]))
        if sq <= 0: sq = root * root
        s = gen.norm(0, sq, 2 * rng.randint(-300, 300) + (rng.randrange(2) if k != 1 else 0))
    else:
        s = gen.finite(rng, prec, sign=0)
    exact = None
    if fin(s) and s[0] == 0 and abs(s[2]) < 10**5:
        exact = ("sqrt", V(s))
    return Case(fn, list(s) + [prec, r2i(rnd)], lambda: call_impl(L.mpf_sqrt, s, prec, rnd), exact, prec, rnd)


def c_pow_int(rng, fn):
    prec = gen.pick_prec(rng)
    rnd = rng.choice(RND)
    r = rng.random()
    if r < 0.3:
        # bases (1 +- 2^-k) and neighbours: the exact power sits just above/below representable numbers, so a wrong
        # truncation direction or a dropped guard bit anywhere in the binary-exponentiation loop flips the result
        k = rng.choice([rng.randint(2, 40), rng.randint(30, 200), rng.randint(150, 650)])
        m = (1 << k) + rng.choice([1, -1]) * rng.choice([1, 1, 3, (1 << rng.randint(0, max(0, k // 2))) + 1])
        s = gen.norm(rng.randrange(2), m, -k + rng.randint(-3, 3))
        n = rng.choice([-9, -7, -5, -3, -2, 2, 3, 3, 5, 5, 7, 9, 11, 13, 17, 33])
        prec = rng.choice([rng.randint(max(1, k - 5), k + 5), rng.randint(k + 1, 3 * k + 2), rng.randint(2 * k, 3 * k + 2), prec])
        exact = ("pow", V(s) ** n, n, s[3])
        return Case(fn, list(s) + [n, prec, r2i(rnd)], lambda: call_impl(L.mpf_pow_int, s, n, prec, rnd), exact, prec, rnd)
    if r < 0.36:
        s = gen.value(rng, prec, special_p=0.7)
    else:
        bits = rng.choice([1, 2, 3, 5, 10, 30, 53, 100, rng.randint(1, 400)])
        s = gen.norm(rng.randrange(2), gen.mant(rng, bits, prec), rng.randint(-60, 60))
    n = rng.choice([-5, -4, -3, -2, -1, 0, 1, 2, 3, 4, 5, 7, 8, 9, 15, 16, 17, 31, 32, 33, 63, 64, 65, 100, 255, 256, 257,
                    1000, 1023, 1024, 1025, -7, -16, -17, -100, -1000, rng.randint(-3000, 3000), 10**6, 10**6 + 1, -10**6])
    if s[1] and s[3] * abs(n) > 600000 and s[3] > 1:
        n = n % 4001 - 2000
    # sizes around the bc*n < 1000 switch
    if rng.random() < 0.15 and s[1] and s[3] > 1:
        n = 1000 // s[3] + rng.randint(-1, 1)
    exact = None
    if fv(s) and (s[1] or n > 0) and s[3] * abs(n) < 40000 and abs(s[2] * n) < 10**5:
        exact = ("pow", V(s) ** n, n, s[3]) if (V(s) != 0 or n > 0) else None
    elif fin(s) and s[1] and abs(n) >= 2:
        # huge powers: only magnitude bracketing by integer log2 bounds (direction clause)
        exact = ("powbig", s, n)
    return Case(fn, list(s) + [n, prec, r2i(rnd)], lambda: call_impl(L.mpf_pow_int, s, n, prec, rnd), exact, prec, rnd)


def c_perturb(rng, fn):
    prec = gen.pick_prec(rng)
    rnd = rng.choice(RND)
    s = gen.finite(rng, prec)
    es = rng.randrange(2)
    return Case(fn, list(s) + [es, prec, r2i(rnd)], lambda: call_impl(L.mpf_perturb, s, es, prec, rnd), None, prec, rnd)


def int_like(rng, prec):
    """values aimed at the integer-part functions: near integers, half-integers, tiny, huge"""
    k = rng.randrange(8)
    if k == 0:
        return gen.value(rng, prec)
    if k == 1:
        return gen.norm(rng.randrange(2), 2 * rng.getrandbits(rng.randint(1, 80)) + 1, -1)    # half-integers
    if k == 2:
        n = rng.getrandbits(rng.randint(1, 90)) + 1
        e = rng.randint(1, 120)
        return gen.norm(rng.randrange(2), (n << e) + rng.choice([1, -1]), -e)   # integer +- tiny
    if k == 3:
        return gen.norm(rng.randrange(2), gen.mant(rng, rng.randint(1, 60)), -rng.randint(1, 200))  # |x| < 1 mostly
    if k == 4:
        return gen.norm(rng.randrange(2), gen.mant(rng, rng.randint(1, 200), prec), rng.randint(0, 300))  # integers
    if k == 5:
        return gen.norm(rng.randrange(2), 1, rng.randint(-5, 5))
    return gen.norm(rng.randrange(2), gen.mant(rng, rng.randint(2, 300), prec), -rng.randint(1, 150))


def c_intpart(rng, fn):
    prec = gen.pick_prec(rng, allow_zero=True)
    rnd = rng.choice(RND)
    s = int_like(rng, prec or 53)
    if prec == 0 and fin(s) and abs(s[2]) > 3000:
        s = (s[0], s[1], s[2] % 6000 - 3000, s[3])     # exact frac of 2^(-2^70) needs 2^70 bits in the code itself
    f = {"mpf_floor": L.mpf_floor, "mpf_ceil": L.mpf_ceil, "mpf_nint": L.mpf_nint, "mpf_frac": L.mpf_frac}[fn]
    exact = None
    if fin(s) and abs(s[2]) < 10**5:
        v = V(s)
        fl = math.floor(v)
        if fn == "mpf_floor": e = Fraction(fl)
        elif fn == "mpf_ceil": e = Fraction(math.ceil(v))
        elif fn == "mpf_frac": e = v - fl
        else:
            d = v - fl
            e = Fraction(fl + (1 if d > Fraction(1, 2) or (d == Fraction(1, 2) and fl % 2 == 1) else 0))
        exact = ("v", e)
    return Case(fn, list(s) + [prec, r2i(rnd)], lambda: call_impl(f, s, prec, rnd), exact, prec, rnd)


def c_round_int_mpf(rng, fn):
    rnd = rng.choice(RND)
    s = int_like(rng, 53)
    return Case(fn, list(s) + [r2i(rnd)], lambda: call_impl(L.mpf_round_int, s, rnd), None, None, rnd, rounded=False)


def c_to_int(rng, fn):
    s = int_like(rng, 53)
    if fin(s) and abs(s[2]) > 5000:
        # Coq's Z.shiftr/Z.shiftl iterate n times: keep shift amounts moderate on the model side
        s = (s[0], s[1], s[2] % 6000 - 3000, s[3])
    r = rng.choice([-1, 0, 1, 2, 3, 4])
    rnd = None if r < 0 else RND[r]
    exact = None
    if fin(s) and abs(s[2]) < 10**5:
        v = V(s)
        mode = rnd or 'd'
        fl = math.floor(v)
        if v == fl: iv = fl
        elif mode == 'f': iv = fl
        elif mode == 'c': iv = fl + 1
        elif mode == 'd': iv = fl if v > 0 else fl + 1
        elif mode == 'u': iv = fl + 1 if v > 0 else fl
        else:
            d = v - fl
            iv = fl + (1 if d > Fraction(1, 2) or (d == Fraction(1, 2) and fl % 2 == 1) else 0)
        exact = ("int", iv)
    return Case(fn, list(s) + [r], lambda: call_impl(L.to_int, s, rnd), exact, None, rnd, rounded=False, ret_mpf=False)


def c_round_int(rng, fn):
    x = gen.small_int(rng)
    if rng.random() < 0.4:
        n = rng.randint(1, 20)
        x = (rng.getrandbits(40) << n) + (1 << (n - 1)) + rng.choice([0, 0, 1, -1])   # ties
        if rng.random() < 0.5: x = -x
    else:
        n = rng.randint(1, max(1, x.bit_length() + 3))
    rnd = rng.choice(RND)
    return Case(fn, [x, n, r2i(rnd)], lambda: call_impl(L.round_int, x, n, rnd), None, None, rnd, rounded=False, ret_mpf=False)


def cmp_pair(rng):
    k = rng.randrange(7)
    s = gen.value(rng, 53, special_p=0.12)
    if k == 0 or not s[1]:
        return s, gen.value(rng, 53, special_p=0.2)
    if k == 1:
        return s, s
    if k == 2:
        return s, (1 - s[0], s[1], s[2], s[3])
    if k == 3:      # same top bit, differing low bits, different exponents
        bits = rng.randint(1, 200)
        m = gen.mant(rng, bits)
        t = gen.norm(s[0], m, s[2] + s[3] - bits)
        return (s, t) if rng.random() < 0.5 else (t, s)
    if k == 4:      # t = s +- tiny
        sh = rng.randint(1, 300)
        t = gen.norm(s[0], (s[1] << sh) + rng.choice([1, -1]), s[2] - sh)
        return (s, t) if rng.random() < 0.5 else (t, s)
    if k == 5:
        t = gen.norm(s[0], gen.mant(rng, rng.randint(1, 100)), s[2])
        return s, t
    return s, gen.finite(rng)


def c_cmp(rng, fn):
    s, t = cmp_pair(rng)
    f = getattr(L, fn)
    exact = None
    if fv(s) and fv(t):
        a, b = V(s), V(t)
        exact = ("cmp", (a > b) - (a < b))
    return Case(fn, list(s) + list(t), lambda: call_impl(f, s, t), exact, None, None, rounded=False, ret_mpf=False, desc=(s, t))


def c_hash(rng, fn):
    s = gen.value(rng, 53, special_p=0.15)
    if rng.random() < 0.3:
        s = gen.norm(rng.randrange(2), gen.mant(rng, rng.randint(1, 64)), rng.choice([-62, -61, -60, -1, 0, 1, 60, 61, 62, 122, -122, rng.randint(-200, 200)]))
    return Case(fn, list(s), lambda: call_impl(L.mpf_hash, s), None, None, None, rounded=False, ret_mpf=False, desc=(s,))


def c_sign(rng, fn):
    s = gen.value(rng, 53, special_p=0.3)
    return Case(fn, list(s), lambda: call_impl(L.mpf_sign, s), None, None, None, rounded=False, ret_mpf=False)


def c_shift(rng, fn):
    s = gen.value(rng, 53, special_p=0.2)
    n = rng.randint(-10**6, 10**6)
    return Case(fn, list(s) + [n], lambda: call_impl(L.mpf_shift, s, n), None, None, None, rounded=False)


def c_frexp(rng, fn):
    s = gen.value(rng, 53, special_p=0.2)
    return Case(fn, list(s), lambda: call_impl(L.mpf_frexp, s), None, None, None, rounded=False, ret_mpf=False)


def c_to_fixed(rng, fn):
    s = gen.finite(rng) if rng.random() < 0.9 else gen.FZERO
    s = (s[0], s[1], s[2] % 2000 - 1000, s[3])
    p = rng.randint(-200, 1200)
    return Case(fn, list(s) + [p], lambda: call_impl(L.to_fixed, s, p), None, None, None, rounded=False, ret_mpf=False)


def c_bitcount(rng, fn):
    k = rng.randrange(4)
    if k == 0: n = rng.randint(0, 1100)
    elif k == 1: n = (1 << rng.randint(0, 2000)) + rng.choice([-1, 0, 1])
    else: n = rng.getrandbits(rng.randint(1, 2500))
    n = max(n, 0)
    if fn == "trailing":
        n <<= rng.choice([0, 1, 7, 8, 9, 15, 16, 17, 64, 200])
        return Case(fn, [n], lambda: call_impl(LI.python_trailing, n), ("int", (n & -n).bit_length() - 1 if n else 0), rounded=False, ret_mpf=False)
    return Case(fn, [n], lambda: call_impl(LI.python_bitcount, n), ("int", n.bit_length()), rounded=False, ret_mpf=False)


def c_isqrt(rng, fn):
    """integer square roots around perfect squares at every size (float-estimate shortcuts, Newton start values)"""
    kb = rng.choice([rng.randint(1, 30), rng.randint(20, 60), rng.randint(45, 110), rng.randint(100, 420), rng.randint(390, 900)])
    K = gen.mant(rng, kb) if rng.random() < 0.7 else (1 << kb) - rng.randint(0, 3)
    k = rng.randrange(6)
    if k == 0: n = K * K
    elif k == 1: n = K * K - 1
    elif k == 2: n = K * K + 2 * K          # (K+1)^2 - 1
    elif k == 3: n = K * K - rng.randint(1, 5)
    elif k == 4: n = (K * K - 1) << (2 * rng.randint(0, 8))
    else: n = rng.getrandbits(2 * kb) | 1
    n = max(n, 0)
    r = math.isqrt(n)
    if fn == "isqrt":
        f = rng.choice([LI.isqrt, LI.isqrt_small_python, LI.isqrt_python] if hasattr(LI, "isqrt_python") else [LI.isqrt, LI.isqrt_small_python])
        return Case(fn, [n], lambda: call_impl(f, n), ("int", r), rounded=False, ret_mpf=False)
    return Case(fn, [n], lambda: call_impl(LI.sqrtrem, n), ("ints2", (r, n - r * r)), rounded=False, ret_mpf=False)


def add_boundary(rng, prec):
    """operand pairs for mpf_add/mpf_sub aimed at the far-apart-exponent shortcut: the small operand's top bit sits
    within a few bits of the rounding cut of the big one (incl. half-ulp ties below a power of two), while its
    long mantissa pushes the exponent offset beyond 100"""
    p = prec or 53
    sb = rng.choice([1, 1, 2, rng.randint(1, p + 8), p, p + 1, p + 5, rng.randint(1, 300)])
    k = rng.randrange(4)
    sm = {0: 1 << (sb - 1), 1: (1 << sb) - 1, 2: (1 << (sb - 1)) | 1}.get(k, gen.mant(rng, sb, prec))
    E = rng.randint(-300, 300)
    s = gen.norm(rng.randrange(2), sm, E)
    top_s = s[2] + s[3]
    delta = p + rng.choice([-3, -2, -1, 0, 0, 1, 1, 1, 2, 2, 3, 4, 4, 5, 5, 6, 7, 8])
    need = max(1, 101 - delta + s[3] + rng.randint(-3, 30))
    tb = need if rng.random() < 0.7 else rng.randint(1, need + 50)
    tm = gen.mant(rng, tb, None)
    if rng.random() < 0.3: tm = 1 << (tb - 1) | 1
    t = gen.norm(rng.randrange(2) if rng.random() < 0.5 else 1 - s[0], tm, top_s - delta - tb)
    return (s, t) if rng.random() < 0.5 else (t, s)


def c_sum(rng, fn):
    prec = gen.pick_prec(rng, allow_zero=True)
    rnd = rng.choice(RND)
    absolute = rng.random() < 0.2
    k = rng.randint(0, 8)
    mode = rng.randrange(4)
    xs = []
    base = rng.randint(-200, 200)
    for _ in range(k):
        if mode == 0:
            x = gen.value(rng, prec, special_p=0.1)
            if fin(x) and x[1]:
                x = (x[0], x[1], x[2] % 400 - 200, x[3])
        elif mode == 1:   # property's side condition: <= p-bit mantissas, magnitudes spanning < p bits
            p = prec or 53
            b = rng.randint(1, p)
            x = gen.norm(rng.randrange(2), gen.mant(rng, b, None), base + rng.randint(0, max(0, p - 2)) - b)
        elif mode == 2:   # widely spread exponents around the 2*prec threshold
            p = prec or 53
            x = gen.norm(rng.randrange(2), gen.mant(rng, rng.randint(1, 80)), base + rng.choice([-1, 1]) * rng.choice([0, 1, p, 2 * p - 1, 2 * p, 2 * p + 1, 2 * p + 70, 3 * p]))
        else:
            x = gen.finite(rng, prec, bits=rng.randint(1, 100))
            x = (x[0], x[1], x[2] % 100, x[3])
        xs.append(x)
    flat = []
    for x in xs: flat += list(x)
    exact = None
    if all(fv(x) for x in xs):
        tot = sum((abs(V(x)) if absolute else V(x)) for x in xs) if xs else Fraction(0)
        exact = ("sum", tot, mode)
    return Case(fn, [prec, r2i(rnd), int(absolute)] + flat, lambda: call_impl(L.mpf_sum, xs, prec, rnd, absolute),
                exact, prec, rnd, desc=xs)


GENS = {
    "normalize": c_normalize, "normalize1": c_normalize, "from_man_exp": c_from_man_exp, "from_int": c_from_man_exp,
    "mpf_add": c_binop, "mpf_sub": c_binop, "mpf_mul": c_binop, "gmpy_mpf_mul": c_binop, "mpf_div": c_binop,
    "mpf_mod": c_binop, "mpf_hypot": c_binop, "mpf_pos": c_unop, "mpf_neg": c_unop, "mpf_abs": c_unop,
    "mpf_mul_int": c_mul_int, "gmpy_mpf_mul_int": c_mul_int, "mpf_rdiv_int": c_rdiv_int, "from_rational": c_from_rational,
    "mpf_sqrt": c_sqrt, "mpf_pow_int": c_pow_int, "mpf_perturb": c_perturb,
    "mpf_floor": c_intpart, "mpf_ceil": c_intpart, "mpf_nint": c_intpart, "mpf_frac": c_intpart,
    "mpf_round_int": c_round_int_mpf, "to_int": c_to_int, "round_int": c_round_int,
    "mpf_eq": c_cmp, "mpf_cmp": c_cmp, "mpf_lt": c_cmp, "mpf_le": c_cmp, "mpf_gt": c_cmp, "mpf_ge": c_cmp,
    "mpf_hash": c_hash, "mpf_sign": c_sign, "mpf_shift": c_shift, "mpf_frexp": c_frexp, "to_fixed": c_to_fixed,
    "bitcount": c_bitcount, "trailing": c_bitcount, "mpf_sum": c_sum, "isqrt": c_isqrt, "sqrtrem": c_isqrt,
}
EXTRA = {"mpf_div": [c_div_directed]}


ISQRT_STEPS = ("isqrt_small_newton", "isqrt_fast_smallx", "isqrt_fast_bigx", "sqrtrem_fix")


def make_cases(rng, fn, n):
    if fn in ISQRT_STEPS:
        import isqrtcases
        return [isqrtcases.GENS[fn](rng, fn) for _ in range(n)]
    gens = [GENS[fn]] + EXTRA.get(fn, [])
    return [gens[i % len(gens)](rng, fn) for i in range(n)]


# ----------------------------------------------------------------------------- search-side spec predicates

def isqrt_round_ok(t, x, prec, rnd):
    """t == RND(sqrt(x))?  decided exactly with integers."""
    from mpmath.libmp.libmpf import fzero
    if x == 0:
        return tuple(t) == fzero
    if is_special(t) or t[1] == 0 or t[0] != 0:
        return False
    # compare candidate y with sqrt(x): y correct iff neighbours bracket; do it by rounding a
    # sufficiently precise rational approximation when sqrt is irrational, exact when perfect square
    num, den = x.numerator, x.denominator
    # scale so that sqrt(num*den)/den ; s = isqrt(num*den * 4^k) gives floor(sqrt(x)*den... ) use big k
    k = prec + 8 + max(0, (den.bit_length() - num.bit_length()) // 2 + 1)
    N = num * den << (2 * k)
    r = math.isqrt(N)
    exact = (r * r == N)
    # sqrt(x) = sqrt(N) / (den * 2^k); approx value between r and r+1 (strictly inside if not exact)
    if exact:
        return value_eq_round(t, Fraction(r, den << k), prec, rnd)
    lo = Fraction(r, den << k); hi = Fraction(r + 1, den << k)
    a = round_fraction(lo, prec, rnd); b = round_fraction(hi, prec, rnd)
    mid = round_fraction((lo + hi) / 2, prec, rnd)
    if a == b == mid:
        return (t[0], t[1], t[2]) == mid
    # boundary inside (lo,hi): decide by squaring the rounding boundary — rare; fall back to higher k
    k2 = 4 * k + 64
    N = num * den << (2 * k2)
    r = math.isqrt(N)
    lo = Fraction(r, den << k2); hi = Fraction(r + 1, den << k2)
    a = round_fraction(lo, prec, rnd); b = round_fraction(hi, prec, rnd)
    if a == b:
        return (t[0], t[1], t[2]) == a
    return True   # undecided at this size: not counted as a failure


def pow_spec(t, case):
    """C03 clauses for x**n with exact value available"""
    bad = []
    _, ex, n, sbc = case.exact
    prec, rnd = case.prec, case.rnd
    if is_special(t):
        return [("POW", "non-finite result for finite base")]
    y = V(t) if t[1] else Fraction(0)
    # exact results are returned exactly / few-bit results are correctly rounded
    if ex != 0:
        r = round_fraction(ex, prec, rnd)
        rv_ = Fraction(r[1]) * Fraction(2) ** r[2] * (-1 if r[0] else 1)
        representable = (rv_ == ex)
        if representable and y != ex:
            bad.append(("POW", "exact power not returned exactly"))
        if n > 0 and sbc * n < 1000 and y != rv_:
            bad.append(("POW", "small power not correctly rounded"))
        # direction
        if rnd == 'f' and y > ex: bad.append(("POW", "floor result above exact power"))
        if rnd == 'c' and y < ex: bad.append(("POW", "ceiling result below exact power"))
        if rnd == 'd' and abs(y) > abs(ex): bad.append(("POW", "round-down result larger in magnitude than exact power"))
        if rnd == 'u' and abs(y) < abs(ex): bad.append(("POW", "round-up result smaller in magnitude than exact power"))
        if (y > 0) != (ex > 0) and y != 0: bad.append(("POW", "wrong sign"))
        if rnd == 'n':
            # within one unit in the last place (of the result's binade)
            ulp = Fraction(2) ** (t[2] + t[3] - prec) if t[1] else Fraction(0)
            if abs(y - ex) > ulp: bad.append(("POW", "nearest result more than one ulp from exact power"))
    elif y != 0:
        bad.append(("POW", "0**n nonzero"))
    return bad


def powbig_spec(t, case):
    """direction clause for huge powers via integer bounds on log2|x^n|: |x| in [2^(e-1), 2^e) with e = exp+bc,
    so |x^n| in [2^(n(e-1)), 2^(ne)) for n>0 (reversed for n<0); the result's top bit must lie in that range
    (one extra binade allowed for rounding up to a power of two)."""
    _, s, n = case.exact
    if is_special(t) or not t[1]:
        return [("POW", "non-finite or zero result for a finite nonzero base")]
    e = s[2] + s[3]
    lo, hi = (n * (e - 1), n * e) if n > 0 else (n * e, n * (e - 1))
    if s[1] == 1:
        lo = hi = n * (e - 1)
    top = t[2] + t[3] - 1          # floor(log2 |y|)
    if not (lo - 1 <= top <= hi + 1):
        return [("POW", "magnitude of huge power outside the exact bracket")]
    want_sign = s[0] & (n & 1)
    if t[0] != want_sign:
        return [("POW", "wrong sign of huge power")]
    return []


def spec_check(case, out):
    """Return list of (property, text) violated by implementation output `out` (encoded) for `case`."""
    bad = []
    if out[0] != 0:
        return bad
    payload = out[1:]
    if case.ret_mpf and len(payload) >= 4:
        t = tuple(payload[:4])
        if not canonical(t):
            bad.append(("C01", "non-canonical result %r" % (small(t),)))
        if case.rounded and case.prec and not is_special(t) and t[3] > case.prec:
            bad.append(("C10", "result has %d bits > prec %d" % (t[3], case.prec)))
        if case.exact is not None and case.rounded:
            kind = case.exact[0]
            if kind == "v":
                if not value_eq_round(t, case.exact[1], case.prec, case.rnd):
                    bad.append(("ROUND", "result is not the correctly rounded exact value"))
            elif kind == "sqrt":
                if not isqrt_round_ok(t, case.exact[1], case.prec, case.rnd):
                    bad.append(("ROUND", "sqrt result is not correctly rounded"))
            elif kind == "pow":
                bad += pow_spec(t, case)
            elif kind == "powbig":
                bad += powbig_spec(t, case)
            elif kind == "sum":
                if case.exact[2] == 1 and not value_eq_round(t, case.exact[1], case.prec, case.rnd):
                    bad.append(("ROUND", "fsum result is not the correctly rounded exact sum"))
    elif case.exact is not None:
        kind = case.exact[0]
        if kind in ("int", "cmp"):
            if case.fn in ("mpf_cmp",):
                if payload[0] != case.exact[1]: bad.append(("VALUE", "mpf_cmp disagrees with exact order"))
            elif case.fn in ("mpf_lt", "mpf_le", "mpf_gt", "mpf_ge", "mpf_eq"):
                c = case.exact[1]
                want = {"mpf_lt": c < 0, "mpf_le": c <= 0, "mpf_gt": c > 0, "mpf_ge": c >= 0, "mpf_eq": c == 0}[case.fn]
                if bool(payload[0]) != want: bad.append(("VALUE", "%s disagrees with exact order" % case.fn))
            elif payload[0] != case.exact[1]:
                bad.append(("VALUE", "integer result differs from exact value"))
        elif kind == "ints2":
            if tuple(payload[:2]) != tuple(case.exact[1]): bad.append(("VALUE", "sqrtrem differs from the exact root and remainder"))
        elif kind in ("isqrt_start", "isqrt_fast", "sqrtrem_fix"):
            import isqrtcases
            bad += isqrtcases.spec(case, out)
    return bad
