#!/bin/sh
# usage: fullpass.sh [tier] [parallel]  — every claimed check once on the current tree; summary on stdout, logs under build/fullpass/
TIER=${1:-quick}; PAR=${2:-3}
cd /verif && mkdir -p build/fullpass
IDS=$(/venv/bin/python -c "import json;print(' '.join(c['property_id'] for c in json.load(open('/verif/MANIFEST.json'))['checks']))")
for id in $IDS; do echo $id; done | xargs -P $PAR -I{} sh -c '
  id={}; t0=$(date +%s)
  ./check $id --tier '"$TIER"' > build/fullpass/$id.'"$TIER"'.log 2>&1; rc=$?
  t1=$(date +%s); nv=$(grep -c "^VIOLATION" build/fullpass/$id.'"$TIER"'.log); nk=$(grep -c "^KNOWN-FINDING" build/fullpass/$id.'"$TIER"'.log)
  echo "$id rc=$rc violations=$nv known=$nk secs=$((t1-t0))"'
