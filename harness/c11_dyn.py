"""Child process of the C11 check (run with MPMATH_VERIF=1 so that the fault-injection hook is active).
   modes:  --list-public            print the public entry points of mp / iv / fp with their code locations (json)
           --run  <jobfile> <out>   run the fault-injection trials described in jobfile (json), write results (json)
           --model <jobfile> <out>  compare the setters / conversion functions with the Ctx.v model (python twin)"""
import os, sys, json, inspect, random, signal, time, math
REPO = os.environ.get("VERIF_REPO", "/repo")
if sys.path[0] != REPO:
    sys.path.insert(0, REPO)
sys.setrecursionlimit(10000)
sys.set_int_max_str_digits(0)
import mpmath
from mpmath import mp, iv, fp
from mpmath.libmp import libmpf

PKG = os.path.dirname(os.path.abspath(mpmath.__file__))
ST = getattr(libmpf, "verif_state", None)
Fault = getattr(libmpf, "VerifInjectedFault", RuntimeError)


# ------------------------------------------------------------------------------------------- public entry points
def fn_info(v):
    fn = v
    bound = False
    if inspect.ismethod(v):
        fn = v.__func__; bound = True
    if not inspect.isfunction(fn):
        return None
    code = fn.__code__
    path = os.path.abspath(code.co_filename)
    if not path.startswith(PKG):
        return None
    d = {"file": os.path.relpath(path, PKG), "lineno": code.co_firstlineno, "codename": code.co_name,
         "qualname": getattr(fn, "__qualname__", code.co_name), "bound": bound}
    if fn.__closure__:
        for nm, cell in zip(code.co_freevars, fn.__closure__):
            try:
                c = cell.cell_contents
            except ValueError:
                continue
            if inspect.ismethod(c):
                c = c.__func__
            if inspect.isfunction(c) and os.path.abspath(c.__code__.co_filename).startswith(PKG):
                d.setdefault("wraps", {})[nm] = {"file": os.path.relpath(os.path.abspath(c.__code__.co_filename), PKG),
                                                 "lineno": c.__code__.co_firstlineno, "name": c.__name__,
                                                 "codename": c.__code__.co_name}
    return d


def list_public():
    out = {}
    for cname, ctx in (("mp", mp), ("iv", iv), ("fp", fp)):
        names = {}
        for name in dir(ctx):
            if name.startswith("_"):
                continue
            try:
                v = getattr(ctx, name)
            except Exception:
                continue
            info = fn_info(v)
            if info is not None:
                names[name] = info
            elif inspect.isclass(v) or not callable(v):
                continue
            else:
                names[name] = {"file": None, "kind": type(v).__name__}
        out[cname] = names
    return out


# ------------------------------------------------------------------------------------------- trials
class CallTimeout(BaseException):
    pass


class CallbackFault(RuntimeError):
    pass


def _alarm(signum, frame):
    raise CallTimeout()


def snapshot():
    return [int(mp.prec), int(mp.dps), int(iv.prec), int(iv.dps), fp.prec, fp.dps]


def restore(s):
    mp.prec = s[0]
    if mp.dps != s[1]:
        mp.dps = s[1]
        if mp.prec != s[0]:
            mp.prec = s[0]
    iv.prec = s[2]


class CB:
    """wraps user callbacks: the j-th invocation (over all wrapped callbacks of one trial) raises"""
    def __init__(self, fault_at=0):
        self.count = 0
        self.fault_at = fault_at

    def __call__(self, f):
        def g(*a, **k):
            self.count += 1
            if self.count == self.fault_at:
                raise CallbackFault("injected callback fault at call %d" % self.count)
            return f(*a, **k)
        return g


def run_once(thunk, k_prim, k_cb, timeout):
    """returns (outcome, nprims, ncb, after_snapshot)"""
    cb = CB(k_cb)
    ST["count"] = 0
    ST["fault_at"] = k_prim
    old = signal.signal(signal.SIGALRM, _alarm)
    signal.setitimer(signal.ITIMER_REAL, timeout)
    try:
        try:
            r = thunk(cb)
            if inspect.isgenerator(r):
                for i, _ in enumerate(r):
                    if i > 6:
                        break
                r.close()
            out = "ok"
        finally:
            signal.setitimer(signal.ITIMER_REAL, 0)
    except CallTimeout:
        out = "timeout"
    except Fault:
        out = "fault"
    except CallbackFault:
        out = "cbfault"
    except RecursionError:
        out = "exc:RecursionError"
    except BaseException as e:
        out = "exc:" + type(e).__name__
    finally:
        signal.setitimer(signal.ITIMER_REAL, 0)
        signal.signal(signal.SIGALRM, old)
        ST["fault_at"] = 0
    return out, ST["count"], cb.count, snapshot()


# ---- argument material
def mk_args(ctx):
    if ctx is iv:
        c = lambda a, b: iv.mpf([a, b])
        A1 = [(c(0.5, 0.75),), (c(2, 2.5),), (c(-1.5, -1.25),), (3,)]
        A2 = [(2, c(0.5, 0.75)), (c(0.5, 0.75), c(0.25, 0.3)), (c(1, 2), 3)]
        A3 = [(2, 3, c(0.25, 0.3)), (1, 2, 3)]
        M = iv.matrix([[c(4, 4.5), c(1, 1.25)], [c(1, 1.25), c(3, 3.5)]])
        b = iv.matrix([1, 2])
    else:
        mk = lambda s: ctx.mpf(float(s))
        A1 = [(mk("0.75"),), (mk("2.5"),), (mk("-1.25"),), (3,), (ctx.mpc(0.5, 0.75),), (mk(30),)]
        A2 = [(2, mk("0.75")), (mk("0.5"), mk("0.25")), (3, mk("2.5")), (mk("1.5"), ctx.mpc(0.5, 1))]
        A3 = [(2, 3, mk("0.25")), (mk("0.5"), mk("1.5"), mk("0.3")), (1, 2, 3)]
        M = ctx.matrix([[4, 1], [1, 3]])
        b = ctx.matrix([1, 2])
    A4 = [(1, 2, 3, A1[0][0]), (A1[0][0], A1[1][0], A1[0][0], A1[0][0])]
    Am = [(M,), (M, b), (M, 2), ([1, 2, 3],), ([A1[0][0], A1[1][0]], A1[0][0])]
    return A1, A2, A3, Am, [()], A4


SKIP_NAMES = {"plot", "cplot", "splot", "default", "clone", "pretty", "trap_complex", "verbose",
              "workprec", "workdps", "extraprec", "extradps", "autoprec", "memoize", "maxcalls", "monitor",
              "bernfrac"}
# by-design precision changes / things exercised by dedicated tests below
SLOW_OK = {"zetazero", "nzeros", "secondzeta", "nsum", "invertlaplace"}


def registry(ctx):
    """name -> list of thunks taking the callback wrapper F; explicit cases for functions whose signature needs it"""
    m = ctx.mpf if ctx is not iv else (lambda x: iv.mpf(x))
    R = {}
    if ctx is iv:
        return R
    sq = lambda x: x * x
    R["quad"] = [lambda F: ctx.quad(F(lambda x: x ** 2 + 1), [0, 1]),
                 lambda F: ctx.quad(F(ctx.exp), [0, 1, 2], method="gauss-legendre"),
                 lambda F: ctx.quad(F(lambda x, y: x * y), [0, 1], [0, 1])]
    R["quadgl"] = [lambda F: ctx.quadgl(F(ctx.sin), [0, 1])]
    R["quadts"] = [lambda F: ctx.quadts(F(ctx.cos), [0, 1])]
    R["quadosc"] = [lambda F: ctx.quadosc(F(lambda x: ctx.sin(x) / x), [0, ctx.inf], omega=1)]
    R["diff"] = [lambda F: ctx.diff(F(ctx.sin), m(1)), lambda F: ctx.diff(F(lambda x: x ** 3), m(2), 2),
                 lambda F: ctx.diff(F(lambda x, y: x * y ** 2), (m(1), m(2)), (1, 1))]
    R["diffs"] = [lambda F: ctx.diffs(F(ctx.sin), m(1), 4), lambda F: ctx.diffs(F(ctx.exp), m(0.5))]
    R["diffs_prod"] = [lambda F: ctx.diffs_prod([ctx.diffs(F(ctx.sin), m(1), 3), ctx.diffs(ctx.cos, m(1), 3)])]
    R["diffs_exp"] = [lambda F: ctx.diffs_exp(ctx.diffs(F(ctx.sin), m(1), 3))]
    R["differint"] = [lambda F: ctx.differint(F(lambda t: t), m(2), 0.5)]
    R["difference"] = [lambda F: ctx.difference([m(1), m(4), m(9), m(16)], 2)]
    R["taylor"] = [lambda F: ctx.taylor(F(ctx.sin), m(0), 4)]
    R["pade"] = [lambda F: ctx.pade(ctx.taylor(F(ctx.exp), 0, 5), 2, 2)]
    R["findroot"] = [lambda F: ctx.findroot(F(lambda x: x ** 2 - 2), m(1)),
                     lambda F: ctx.findroot(F(lambda x: x ** 3 - 1), (m(0), m(2)), solver="illinois"),
                     lambda F: ctx.findroot(F(lambda x: ctx.cos(x) - x), m(1), solver="newton"),
                     lambda F: ctx.findroot(F(lambda x: x ** 2 - 3), (m(1), m(2)), solver="anderson"),
                     lambda F: ctx.findroot(F(lambda x: x ** 2 - 3), m(1), solver="mnewton"),
                     lambda F: ctx.findroot([F(lambda a, b: a + b - 3), lambda a, b: a - b - 1], (m(1), m(1))),
                     lambda F: ctx.findroot(F(lambda x: x * x - 4), m(2))]
    R["nsum"] = [lambda F: ctx.nsum(F(lambda k: 1 / k ** 2), [1, ctx.inf]),
                 lambda F: ctx.nsum(F(lambda k: (-1) ** k / k), [1, ctx.inf], method="a"),
                 lambda F: ctx.nsum(F(lambda k: 1 / k ** 3), [1, ctx.inf], method="e")]
    R["nprod"] = [lambda F: ctx.nprod(F(lambda k: 1 - 1 / k ** 2), [2, ctx.inf])]
    R["limit"] = [lambda F: ctx.limit(F(lambda x: ctx.sin(x) / x), 0)]
    R["sumem"] = [lambda F: ctx.sumem(F(lambda k: 1 / k ** 2), [32, ctx.inf])]
    R["sumap"] = [lambda F: ctx.sumap(F(lambda k: 1 / k ** 2), [1, ctx.inf])]
    R["chebyfit"] = [lambda F: ctx.chebyfit(F(ctx.cos), [1, 2], 4)]
    R["fourier"] = [lambda F: ctx.fourier(F(lambda x: x), [-1, 1], 3)]
    R["fourierval"] = [lambda F: ctx.fourierval(([0, 1], [0, 2]), [-1, 1], m(0.5))]
    R["odefun"] = [lambda F: ctx.odefun(F(lambda x, y: y), 0, 1)(m(0.5)),
                   lambda F: ctx.odefun(F(lambda x, y: [y[1], -y[0]]), 0, [1, 0])(m(1))]
    R["invertlaplace"] = [lambda F: ctx.invertlaplace(F(lambda s: 1 / (s + 1)), m(1), method="talbot"),
                          lambda F: ctx.invertlaplace(F(lambda s: 1 / (s + 1)), m(1), method="stehfest"),
                          lambda F: ctx.invertlaplace(F(lambda s: 1 / (s + 1)), m(1), method="dehoog")]
    R["invlaptalbot"] = [lambda F: ctx.invlaptalbot(F(lambda s: 1 / (s + 1)), m(1))]
    R["invlapstehfest"] = [lambda F: ctx.invlapstehfest(F(lambda s: 1 / (s + 1)), m(1))]
    R["invlapdehoog"] = [lambda F: ctx.invlapdehoog(F(lambda s: 1 / (s + 1)), m(1))]
    R["pslq"] = [lambda F: ctx.pslq([ctx.pi, ctx.e, ctx.pi + 2 * ctx.e], maxcoeff=100, maxsteps=1000)]
    R["findpoly"] = [lambda F: ctx.findpoly(ctx.sqrt(2), 2)]
    R["identify"] = [lambda F: ctx.identify(ctx.sqrt(2) / 2), lambda F: ctx.identify(ctx.pi / 4 + 1, ["pi"])]
    R["polyroots"] = [lambda F: ctx.polyroots([1, -3, 2]), lambda F: ctx.polyroots([1, 0, 0, -1], error=True)]
    R["polyval"] = [lambda F: ctx.polyval([1, 2, 3], m(0.5)), lambda F: ctx.polyval([1, 2, 3], m(0.5), derivative=True)]
    R["richardson"] = [lambda F: ctx.richardson([m(1) / k for k in range(1, 9)])]
    R["shanks"] = [lambda F: ctx.shanks([sum(m(-1) ** j / (2 * j + 1) for j in range(n)) for n in range(1, 8)])]
    R["fsum"] = [lambda F: ctx.fsum([m(1), m(2), m("0.3")]), lambda F: ctx.fsum([m(1), ctx.mpc(1, 2)], absolute=True)]
    R["fdot"] = [lambda F: ctx.fdot([m(1), m(2)], [m(3), m("0.4")])]
    R["fprod"] = [lambda F: ctx.fprod([m(1.5), m(2), m("0.3")])]
    R["sum_accurately"] = [lambda F: ctx.sum_accurately(F(lambda: iter([m(1), m("1e-30"), m(-1)])))]
    R["mul_accurately"] = [lambda F: ctx.mul_accurately(F(lambda: iter([m(3), m("1.5")])))]
    R["matrix"] = [lambda F: ctx.matrix(2, 2), lambda F: ctx.matrix([[1, 2], [3, 4]]) * ctx.matrix([[1, 2], [3, 4]])]
    M = lambda: ctx.matrix([[4, 1, 0], [1, 3, 1], [0, 1, 2]])
    b = lambda: ctx.matrix([1, 2, 3])
    for nm in ("expm", "sqrtm", "logm", "sinm", "cosm", "det", "inverse", "lu", "qr", "cholesky", "svd", "svd_r", "eig",
               "eigh", "eigsy", "hessenberg", "schur", "mnorm", "cond", "L_solve", "norm"):
        if hasattr(ctx, nm):
            R[nm] = [lambda F, nm=nm: getattr(ctx, nm)(M())]
    for nm in ("lu_solve", "qr_solve", "cholesky_solve", "residual"):
        if hasattr(ctx, nm):
            R[nm] = [lambda F, nm=nm: getattr(ctx, nm)(M(), b())] if nm != "residual" else \
                    [lambda F: ctx.residual(M(), ctx.lu_solve(M(), b()), b())]
    R["powm"] = [lambda F: ctx.powm(M(), m(0.5)), lambda F: ctx.powm(M(), 2)]
    R["expm"] = R.get("expm", []) + [lambda F: ctx.expm(M(), method="pade")]
    R["zetazero"] = [lambda F: ctx.zetazero(2)]
    R["nzeros"] = [lambda F: ctx.nzeros(50), lambda F: ctx.nzeros(30)]
    R["rs_zeta"] = [lambda F: ctx.rs_zeta(ctx.mpc(0.5, 1000)), lambda F: ctx.rs_zeta(ctx.mpc(0.5, 500), 1)]
    R["rs_z"] = [lambda F: ctx.rs_z(m(1000)), lambda F: ctx.rs_z(m(500), 1)]
    R["siegelz"] = [lambda F: ctx.siegelz(m(10)), lambda F: ctx.siegelz(m(5000))]
    R["zeta"] = [lambda F: ctx.zeta(m(2.5)), lambda F: ctx.zeta(ctx.mpc(0.5, 30)), lambda F: ctx.zeta(ctx.mpc(0.5, 2000)),
                 lambda F: ctx.zeta(m(2), m(0.5), 1)]
    R["grampoint"] = [lambda F: ctx.grampoint(10)]
    R["backlunds"] = [lambda F: ctx.backlunds(m(100))]
    R["secondzeta"] = [lambda F: ctx.secondzeta(m(2))]
    R["stieltjes"] = [lambda F: ctx.stieltjes(1), lambda F: ctx.stieltjes(2, m(0.5))]
    R["lambertw"] = [lambda F: ctx.lambertw(m(3)), lambda F: ctx.lambertw(m("-0.3")), lambda F: ctx.lambertw(ctx.mpc(1, 2), 1)]
    R["airyai"] = [lambda F: ctx.airyai(m(5)), lambda F: ctx.airyai(m(1)), lambda F: ctx.airyai(m(5), 1), lambda F: ctx.airyai(m(2), 2)]
    R["airybi"] = [lambda F: ctx.airybi(m(5)), lambda F: ctx.airybi(m(-5), 2), lambda F: ctx.airybi(m(1), 1)]
    R["airyaizero"] = [lambda F: ctx.airyaizero(2)]
    R["airybizero"] = [lambda F: ctx.airybizero(2)]
    R["scorergi"] = [lambda F: ctx.scorergi(m(3)), lambda F: ctx.scorergi(m(-30))]
    R["scorerhi"] = [lambda F: ctx.scorerhi(m(3)), lambda F: ctx.scorerhi(m(-30))]
    R["besseljzero"] = [lambda F: ctx.besseljzero(1, 2)]
    R["besselyzero"] = [lambda F: ctx.besselyzero(1, 2)]
    R["hyper"] = [lambda F: ctx.hyper([1, 2], [3], m(0.5)), lambda F: ctx.hyper([1, 2, 3], [4, 5], m("0.99")),
                  lambda F: ctx.hyper([1, 1], [], m("-0.01"))]
    R["hypercomb"] = [lambda F: ctx.hypercomb(F(lambda a: [([a], [1], [], [], [a], [a + 1], m(0.5))]), [m(2)])]
    R["hyper2d"] = [lambda F: ctx.hyper2d({"m+n": [1, 2]}, {"m": [3], "n": [4]}, m(0.25), m(0.5))]
    R["appellf1"] = [lambda F: ctx.appellf1(1, 2, 3, 5, m(0.25), m(0.5))]
    R["meijerg"] = [lambda F: ctx.meijerg([[1], []], [[0.5], [0]], m(0.5))]
    R["bihyper"] = [lambda F: ctx.bihyper([1], [2, 3], m(0.5))]
    R["jtheta"] = [lambda F: ctx.jtheta(2, m(0.3), m(0.4)), lambda F: ctx.jtheta(3, ctx.mpc(0.3, 1), m(0.1), 1)]
    R["ellipfun"] = [lambda F: ctx.ellipfun("sn", m(0.5), m(0.3))]
    R["elliprj"] = [lambda F: ctx.elliprj(1, 2, 3, 4)]
    R["elliprf"] = [lambda F: ctx.elliprf(1, 2, 3)]
    R["elliprd"] = [lambda F: ctx.elliprd(1, 2, 3)]
    R["elliprg"] = [lambda F: ctx.elliprg(1, 2, 3)]
    R["elliprc"] = [lambda F: ctx.elliprc(1, 2)]
    R["ellippi"] = [lambda F: ctx.ellippi(m(0.25), m(0.5)), lambda F: ctx.ellippi(m(0.25), m(1), m(0.5))]
    R["gammaprod"] = [lambda F: ctx.gammaprod([m(2.5), 3], [m(1.5)])]
    R["unitroots"] = [lambda F: ctx.unitroots(5), lambda F: ctx.unitroots(6, primitive=True)]
    R["root"] = [lambda F: ctx.root(m(2), 3), lambda F: ctx.root(ctx.mpc(2, 3), 3, 1)]
    R["cyclotomic"] = [lambda F: ctx.cyclotomic(5, m(0.5))]
    R["bernoulli"] = [lambda F: ctx.bernoulli(20)]
    R["bell"] = [lambda F: ctx.bell(5, m(0.5))]
    R["polyexp"] = [lambda F: ctx.polyexp(2, m(0.5))]
    R["spherharm"] = [lambda F: ctx.spherharm(2, 1, m(0.5), m(0.25))]
    R["coulombf"] = [lambda F: ctx.coulombf(2, m(0.5), m(1.5))]
    R["coulombg"] = [lambda F: ctx.coulombg(2, m(0.5), m(1.5))]
    R["hyperu"] = [lambda F: ctx.hyperu(2, 3, m(0.5))]
    R["legenp"] = [lambda F: ctx.legenp(2, 1, m(0.5))]
    R["legenq"] = [lambda F: ctx.legenq(2, 1, m(0.5))]
    R["pcfd"] = [lambda F: ctx.pcfd(2, m(0.5))]
    R["appellf2"] = [lambda F: ctx.appellf2(1, 2, 3, 5, 6, m(0.25), m(0.125))]
    R["appellf3"] = [lambda F: ctx.appellf3(1, 2, 3, 4, 5, m(0.25), m(0.125))]
    R["appellf4"] = [lambda F: ctx.appellf4(1, 2, 3, 4, m(0.0625), m(0.03125))]
    R["hyp2f2"] = [lambda F: ctx.hyp2f2(1, 2, 3, 4, m(0.5))]
    R["hyp2f3"] = [lambda F: ctx.hyp2f3(1, 2, 3, 4, 5, m(0.5))]
    R["hyp3f2"] = [lambda F: ctx.hyp3f2(1, 2, 3, 4, 5, m(0.5))]
    R["lommels1"] = [lambda F: ctx.lommels1(m(0.5), m(1.5), m(2))]
    R["lommels2"] = [lambda F: ctx.lommels2(m(0.5), m(1.5), m(2))]
    R["qhyper"] = [lambda F: ctx.qhyper([m(0.5)], [], m(0.25), m(0.5))]
    R["jacobian"] = [lambda F: ctx.jacobian(F(lambda a, b: [a * b, a + b]), (m(1), m(2)))]
    R["multiplicity"] = [lambda F: ctx.multiplicity(F(lambda x: (x - 1) ** 2), m(1))]
    R["unitvector"] = [lambda F: ctx.unitvector(3, 2)]
    R["swap_row"] = [lambda F: ctx.swap_row(ctx.matrix([[1, 2], [3, 4]]), 0, 1)]
    R["improve_solution"] = [lambda F: ctx.improve_solution(ctx.matrix([[4, 1], [1, 3]]), ctx.matrix([0.1, 0.6]), ctx.matrix([1, 2]))]
    R["to_fixed"] = [lambda F: ctx.to_fixed(m(1.5), 30)]
    R["adaptive_extrapolation"] = [lambda F: ctx.nsum(F(lambda k: 1 / k ** 4), [1, ctx.inf], method="r+s+e")]
    R["hypsum"] = [lambda F: ctx.hyp1f1(m(0.5), m(1.5), m(2))]
    R["mpf"] = [lambda F: ctx.mpf("1.25") + ctx.mpf(3), lambda F: ctx.mpf(1) / 3]
    R["mpc"] = [lambda F: ctx.mpc(1, 2) * ctx.mpc(3, 4)]
    R["nstr"] = [lambda F: ctx.nstr(ctx.pi, 20)]
    R["nprint"] = [lambda F: ctx.nstr(ctx.pi, 5)]
    R["chop"] = [lambda F: ctx.chop(m("1e-30"))]
    R["almosteq"] = [lambda F: ctx.almosteq(m(1), m(1) + ctx.eps)]
    R["linspace"] = [lambda F: ctx.linspace(0, 1, 5)]
    R["arange"] = [lambda F: ctx.arange(0, 1, m("0.25"))]
    R["rand"] = [lambda F: ctx.rand()]
    R["convert"] = [lambda F: ctx.convert("1.5"), lambda F: ctx.convert(2.5)]
    R["mpmathify"] = [lambda F: ctx.mpmathify("1/3")]
    R["fraction"] = [lambda F: +ctx.fraction(1, 3)]
    R["pi"] = [lambda F: +ctx.pi, lambda F: ctx.pi(prec=300) if callable(ctx.pi) else +ctx.pi]
    for cn in ("e", "euler", "catalan", "khinchin", "glaisher", "apery", "phi", "ln2", "ln10", "mertens", "twinprime", "degree"):
        R[cn] = [lambda F, cn=cn: +getattr(ctx, cn)]
    R["eps"] = [lambda F: +ctx.eps]
    return R


def cases_for(ctx, name, fn, rng):
    """list of (label, thunk)"""
    out = []
    reg = REG[id(ctx)]
    if name in reg:
        for i, t in enumerate(reg[name]):
            out.append(("registry#%d" % i, t))
        return out, True
    for grp in ARGS[id(ctx)]:
        for a in grp:
            out.append((repr(a)[:120], (lambda F, a=a: fn(*a))))
    return out, False


REG = {}
ARGS = {}


def pick_ks(n, rng, how_many, exhaustive_upto=0):
    if n <= 0:
        return []
    ks = set([1, n])
    if n > 2:
        ks.add(2); ks.add(n // 2); ks.add(n - 1)
    for k in range(1, min(n, exhaustive_upto) + 1):
        ks.add(k)
    while len(ks) < min(n, how_many):
        ks.add(rng.randint(1, n))
    return sorted(ks)


def run_jobs(job):
    tier = job["tier"]
    seed = job["seed"]
    deadline = time.time() + job["budget"]
    precs_fixed = [53, 101]
    res = {"functions": {}, "leaks": [], "trials": 0, "fault_trials": 0, "cb_trials": 0, "distinct": 0,
           "samples": [], "inconclusive": 0, "nocase": [], "special": []}
    for cname, ctx in (("mp", mp), ("iv", iv), ("fp", fp)):
        REG[id(ctx)] = registry(ctx) if cname != "fp" else registry(ctx)
        ARGS[id(ctx)] = mk_args(ctx)
    unsafe = set(job.get("unsafe", []))
    for cname, name in job["names"]:
        ctx = {"mp": mp, "iv": iv, "fp": fp}[cname]
        rng = random.Random("%s-%s-%s" % (seed, cname, name))
        if tier == "quick":
            precs = precs_fixed + [rng.choice([24, 37, 64, 77, 113, 150, 237, 333])]
        else:
            precs = precs_fixed + [rng.randint(20, 120), rng.randint(120, 500), rng.choice([24, 64, 113, 237])]
        full = "%s.%s" % (cname, name)
        fres = {"cases": 0, "trials": 0, "faults": 0, "cbfaults": 0, "leaks": 0, "nprims": 0}
        res["functions"][full] = fres
        try:
            fn = getattr(ctx, name)
        except Exception:
            continue
        is_unsafe = name in unsafe and cname == "mp"
        cands, registered = cases_for(ctx, name, fn, rng)
        good = 0
        max_good = (3 if registered else 2) if tier == "quick" else (8 if registered else 4)
        if is_unsafe:
            max_good = 6
        tcall = 1.0 if tier == "quick" else 4.0
        if name in SLOW_OK or is_unsafe:
            tcall = 8.0
        tstart = time.time()
        fbudget = (0.8 if tier == "quick" else 12.0) if not is_unsafe else 25.0
        if name in SLOW_OK:
            fbudget = max(fbudget, 4.0 if tier == "quick" else 40.0)
        for label, thunk in cands:
            if good >= max_good or time.time() > deadline or time.time() - tstart > fbudget:
                break
            # baseline at the first precision
            for pi, p0 in enumerate(precs if cname != "fp" else [53]):
                if time.time() - tstart > fbudget and pi > 0:
                    break
                base = snapshot()
                if cname == "mp":
                    mp.prec = p0
                elif cname == "iv":
                    iv.prec = p0
                before = snapshot()
                t0 = time.time()
                out, n, ncb, after = run_once(thunk, 0, 0, tcall)
                dt = time.time() - t0
                if pi == 0 and (out.startswith("exc:") or out == "timeout") and not registered:
                    restore(base)
                    break       # these arguments do not fit the function: try the next tuple
                if pi == 0:
                    good += 1
                    fres["cases"] += 1
                res["trials"] += 1; fres["trials"] += 1
                fres["nprims"] = max(fres["nprims"], n)
                if out == "timeout":
                    res["inconclusive"] += 1
                    restore(base)
                    continue
                if after != before:
                    res["leaks"].append({"fn": name, "ctx": cname, "args": label, "fault_at": 0, "cb_fault_at": 0,
                                         "outcome": out, "prec_before": before, "prec_after": after})
                    fres["leaks"] += 1
                if len(res["samples"]) < 12 and n > 3:
                    res["samples"].append({"fn": full, "args": label, "prec": p0, "primitive_calls": n, "outcome": out})
                restore(before)
                # fault injection at primitive calls
                nk = (4 if tier == "quick" else 60)
                if dt > 0.15:
                    nk = 2 if tier == "quick" else 12
                exh = 0
                if is_unsafe:
                    nk, exh = 40, 300
                for k in pick_ks(n, rng, nk, exh):
                    if time.time() - tstart > fbudget or time.time() > deadline:
                        break
                    out2, n2, _, after2 = run_once(thunk, k, 0, tcall)
                    res["trials"] += 1; fres["trials"] += 1
                    if out2 == "timeout":
                        res["inconclusive"] += 1
                    else:
                        if out2 == "fault":
                            res["fault_trials"] += 1; fres["faults"] += 1
                        if after2 != before:
                            fres["leaks"] += 1
                            if fres["leaks"] <= 3:
                                res["leaks"].append({"fn": name, "ctx": cname, "args": label, "fault_at": k, "cb_fault_at": 0,
                                                     "outcome": out2, "prec_before": before, "prec_after": after2})
                    restore(before)
                # faults raised by the user's callback
                for j in pick_ks(ncb, rng, 3 if tier == "quick" else 10, 0):
                    if time.time() - tstart > fbudget or time.time() > deadline:
                        break
                    out3, _, _, after3 = run_once(thunk, 0, j, tcall)
                    res["trials"] += 1; fres["trials"] += 1
                    if out3 == "timeout":
                        res["inconclusive"] += 1
                    else:
                        if out3 == "cbfault":
                            res["cb_trials"] += 1; fres["cbfaults"] += 1
                        if after3 != before:
                            fres["leaks"] += 1
                            if fres["leaks"] <= 3:
                                res["leaks"].append({"fn": name, "ctx": cname, "args": label, "fault_at": 0, "cb_fault_at": j,
                                                     "outcome": out3, "prec_before": before, "prec_after": after3})
                    restore(before)
                restore(base)
        if fres["cases"] == 0:
            res["nocase"].append(full)
        if fres["faults"] + fres["cbfaults"] > 0:
            res["distinct"] += 1
    return res


# ------------------------------------------------------------------------------------------- managers, setters
CUR = ["mp"]


def special_tests(job):
    """workprec & co (with / decorator / nested / normalize_output, normal and exceptional exits), autoprec,
    memoize, the returned callable of odefun, generators consumed piecewise, fp constants, default/clone"""
    out = {"checks": 0, "failures": [], "samples": []}
    rng = random.Random("special-%s" % job["seed"])

    def expect(cond, what, **kw):
        out["checks"] += 1
        if not cond:
            d = {"fn": what, "ctx": CUR[0]}; d.update(kw)
            out["failures"].append(d)
            if RESET[0] is not None:      # do not let one leak cascade into the following checks
                RESET[0]()

    RESET = [None]

    class Boom(Exception):
        pass

    def boom(*a, **k):
        raise Boom()

    for ctx, cname in ((mp, "mp"), (iv, "iv")):
        CUR[0] = cname
        if not hasattr(ctx, "workprec"):
            continue
        for p0 in (53, 101, rng.randint(20, 400)):
            ctx.prec = p0
            s0 = (int(ctx.prec), int(ctx.dps))
            RESET[0] = (lambda ctx=ctx, p0=p0: setattr(ctx, "prec", p0))
            for mgr, arg in (("workprec", 77), ("workdps", 31), ("extraprec", 19), ("extradps", 7)):
                f = getattr(ctx, mgr)
                what = mgr
                inside = []
                with f(arg):
                    inside.append((int(ctx.prec), int(ctx.dps)))
                expect((int(ctx.prec), int(ctx.dps)) == s0, what, args="with, normal exit", prec_before=s0, prec_after=(int(ctx.prec), int(ctx.dps)))
                want = {"workprec": lambda: arg == inside[0][0], "workdps": lambda: arg == inside[0][1],
                        "extraprec": lambda: p0 + arg == inside[0][0], "extradps": lambda: s0[1] + arg == inside[0][1]}[mgr]()
                expect(want, what, args="with: precision inside the block", prec_before=s0, prec_after=inside[0])
                try:
                    with f(arg):
                        boom()
                except Boom:
                    pass
                expect((int(ctx.prec), int(ctx.dps)) == s0, what, args="with, exception exit", prec_before=s0, prec_after=(int(ctx.prec), int(ctx.dps)))
                try:
                    with f(arg):
                        with ctx.extraprec(5):
                            with ctx.workdps(9):
                                boom()
                except Boom:
                    pass
                expect((int(ctx.prec), int(ctx.dps)) == s0, what, args="nested with, exception exit", prec_before=s0, prec_after=(int(ctx.prec), int(ctx.dps)))
                with f(arg):
                    with ctx.workprec(200):
                        pass
                    expect((int(ctx.prec), int(ctx.dps)) == inside[0], what, args="nested with restores the outer block's precision",
                           prec_before=inside[0], prec_after=(int(ctx.prec), int(ctx.dps)))
                expect((int(ctx.prec), int(ctx.dps)) == s0, what, args="nested with, normal exit", prec_before=s0, prec_after=(int(ctx.prec), int(ctx.dps)))
                for norm in (False, True):
                    g = f(arg, normalize_output=norm)(lambda x: x * 3)
                    try:
                        v = g(ctx.mpf(2))
                    except Exception as e:
                        v = None
                    expect((int(ctx.prec), int(ctx.dps)) == s0, what, args="decorator normalize_output=%s, normal exit" % norm,
                           prec_before=s0, prec_after=(int(ctx.prec), int(ctx.dps)))
                    g2 = f(arg, normalize_output=norm)(boom)
                    try:
                        g2(1)
                    except Boom:
                        pass
                    expect((int(ctx.prec), int(ctx.dps)) == s0, what, args="decorator normalize_output=%s, exception exit" % norm,
                           prec_before=s0, prec_after=(int(ctx.prec), int(ctx.dps)))
                    g3 = f(arg, normalize_output=norm)(lambda: (ctx.mpf(1) / 3, ctx.mpf(2) / 3))
                    try:
                        g3()
                    except Exception:
                        pass
                    expect((int(ctx.prec), int(ctx.dps)) == s0, what, args="decorator returning a tuple", prec_before=s0,
                           prec_after=(int(ctx.prec), int(ctx.dps)))
                if cname == "mp" and ST is not None:
                    # internal fault while the managed block computes
                    for k in (1, 2, 3):
                        ST["count"] = 0; ST["fault_at"] = k
                        try:
                            with f(arg):
                                ctx.sqrt(2) + ctx.exp(1)
                        except Fault:
                            pass
                        finally:
                            ST["fault_at"] = 0
                        expect((int(ctx.prec), int(ctx.dps)) == s0, what, args="with, injected fault", fault_at=k, prec_before=s0,
                               prec_after=(int(ctx.prec), int(ctx.dps)))
            ctx.prec = 53
    CUR[0] = "mp"
    RESET[0] = None
    # autoprec / memoize / maxcalls / monitor wrappers and returned callables
    for p0 in (53, 101):
        mp.prec = p0
        s0 = snapshot()
        for nm, mk in (("autoprec", lambda f: mp.autoprec(f)), ("memoize", lambda f: mp.memoize(f)),
                       ("maxcalls", lambda f: mp.maxcalls(f, 100)), ("monitor", lambda f: mp.monitor(f, input=None, output=None))):
            try:
                w = mk(lambda x: mp.sqrt(x) + 1)
                w(mp.mpf(2))
            except Exception:
                pass
            expect(snapshot() == s0, nm, args="wrapper, normal exit", prec_before=s0, prec_after=snapshot()); restore(s0)
            try:
                mk(boom)(mp.mpf(2))
            except Boom:
                pass
            except Exception:
                pass
            expect(snapshot() == s0, nm, args="wrapper, callback raises", prec_before=s0, prec_after=snapshot()); restore(s0)
            if ST is not None:
                for k in (1, 2, 5):
                    ST["count"] = 0; ST["fault_at"] = k
                    try:
                        mk(lambda x: mp.sqrt(x) + mp.exp(x))(mp.mpf(2))
                    except Fault:
                        pass
                    except Exception:
                        pass
                    finally:
                        ST["fault_at"] = 0
                    expect(snapshot() == s0, nm, args="wrapper, injected fault", fault_at=k, prec_before=s0, prec_after=snapshot()); restore(s0)
        # callable returned by odefun, used later at another precision
        f = mp.odefun(lambda x, y: y, 0, 1)
        mp.prec = p0 + 20
        s1 = snapshot()
        try:
            f(mp.mpf(0.5))
        except Exception:
            pass
        expect(snapshot() == s1, "odefun", args="returned interpolant called at another precision", prec_before=s1, prec_after=snapshot())
        if ST is not None:
            for k in (1, 3, 10):
                ST["count"] = 0; ST["fault_at"] = k
                try:
                    f(mp.mpf(2.5))
                except Fault:
                    pass
                except Exception:
                    pass
                finally:
                    ST["fault_at"] = 0
                expect(snapshot() == s1, "odefun", args="returned interpolant, injected fault", fault_at=k, prec_before=s1, prec_after=snapshot())
                restore(s1)
        mp.prec = p0
        # generator consumed step by step
        g = mp.diffs(mp.sin, mp.mpf(1), 5)
        for i in range(4):
            next(g)
            expect(snapshot() == s0, "diffs", args="generator resumed %d times" % (i + 1), prec_before=s0, prec_after=snapshot())
        g.close()
        restore(s0)
    # generator resumed after the CONSUMER changed the precision: its segments restore a stale absolute precision
    mp.prec = 53
    g = mp.diffs(mp.sin, mp.mpf(1))
    for i in range(4):
        next(g)
    mp.prec = 100
    s1 = snapshot()
    next(g)
    expect(snapshot() == s1, "diffs", args="generator resumed after the consumer changed mp.prec", prec_before=s1, prec_after=snapshot())
    g.close()
    mp.prec = 53
    # default() and clone()
    mp.prec = 101
    c = mp.clone()
    expect((int(c.prec), int(c.dps)) == (101, 29) and (int(mp.prec), int(mp.dps)) == (101, 29), "clone", args="clone copies and leaves mp alone",
           prec_before=[101, 29], prec_after=[int(mp.prec), int(mp.dps), int(c.prec), int(c.dps)])
    c.prec = 300
    expect((int(mp.prec), int(mp.dps)) == (101, 29), "clone", args="setting the clone's prec", prec_before=[101, 29], prec_after=[int(mp.prec), int(mp.dps)])
    mp.default()
    expect((int(mp.prec), int(mp.dps)) == (53, 15), "default", args="default() resets to 53/15", prec_before=[101, 29], prec_after=[int(mp.prec), int(mp.dps)])
    # fp has no mutable precision
    for v in (100, 5, 0, -3):
        fp.prec = v
        expect(fp.prec == 53 and fp.dps == 15, "fp_prec", args="fp.prec = %d ignored" % v, prec_after=[fp.prec, fp.dps])
        fp.dps = v
        expect(fp.prec == 53 and fp.dps == 15, "fp_dps", args="fp.dps = %d ignored" % v, prec_after=[fp.prec, fp.dps])
    return out


# ------------------------------------------------------------------------------------------- Ctx.v model twin
CN = 3740158532571577
CD = 1125899906842624


def rhe(num, den):
    q, r = divmod(num, den)
    if 2 * r < den:
        return q
    if 2 * r > den:
        return q + 1
    return q if q % 2 == 0 else q + 1


def m_prec_to_dps(n):
    return max(1, rhe(n * CD, CN) - 1)


def m_dps_to_prec(n):
    return max(1, rhe((n + 1) * CN, CD))


def model_tests(job):
    """setters and conversion functions against the python twin of Ctx.v; returns mismatches with concrete inputs and a
    sample of live observations for Coq to re-check against the Gallina model"""
    out = {"checks": 0, "failures": [], "cases": []}
    rng = random.Random("model-%s" % job["seed"])
    N = job.get("model_bound", 200000)
    p2d, d2p = libmpf.prec_to_dps, libmpf.dps_to_prec
    bad = 0
    for n in range(-5, N + 1):
        out["checks"] += 2
        if p2d(n) != m_prec_to_dps(n):
            bad += 1
            if bad < 5:
                out["failures"].append({"fn": "prec_to_dps", "args": n, "impl": p2d(n), "model": m_prec_to_dps(n)})
        if d2p(n) != m_dps_to_prec(n):
            bad += 1
            if bad < 5:
                out["failures"].append({"fn": "dps_to_prec", "args": n, "impl": d2p(n), "model": m_dps_to_prec(n)})
        if n >= 1:
            out["checks"] += 1
            if p2d(d2p(n)) != n:
                out["failures"].append({"fn": "prec_to_dps(dps_to_prec(d))", "args": n, "impl": p2d(d2p(n)), "model": n})
    big = [rng.randint(N, 10 ** 7) for _ in range(2000)] + [10 ** 6, 10 ** 6 - 1, 3321928, 3321929, 2 ** 31, 10 ** 9]
    for n in big:
        out["checks"] += 2
        if p2d(n) != m_prec_to_dps(n):
            out["failures"].append({"fn": "prec_to_dps", "args": n, "impl": p2d(n), "model": m_prec_to_dps(n)})
        if d2p(n) != m_dps_to_prec(n):
            out["failures"].append({"fn": "dps_to_prec", "args": n, "impl": d2p(n), "model": m_dps_to_prec(n)})
    vals = [1, 2, 3, 4, 7, 10, 15, 16, 29, 30, 53, 64, 100, 101, 113, 1000, 3322, 33219, 0, -1, -7, 10 ** 6] + \
           [rng.randint(1, 5000) for _ in range(60)] + [rng.randint(1, 10 ** 6) for _ in range(20)]
    for ctx, cname in ((mp, "mp"), (iv, "iv")):
        save = int(ctx.prec)
        for v in vals:
            ctx.prec = v
            got = (int(ctx.prec), int(ctx.dps))
            want = (max(1, v), m_prec_to_dps(v))
            out["checks"] += 1
            out["cases"].append(["set_prec", v, got[0], got[1]])
            if got != want:
                out["failures"].append({"fn": "%s.prec = n" % cname, "args": v, "impl": got, "model": want})
            if cname == "mp":
                out["checks"] += 1
                if mp._prec_rounding[0] != got[0]:
                    out["failures"].append({"fn": "mp._prec_rounding[0]", "args": v, "impl": mp._prec_rounding[0], "model": got[0]})
            # restoring the value that was read is exact
            ctx.prec = got[0]
            out["checks"] += 1
            if (int(ctx.prec), int(ctx.dps)) != got:
                out["failures"].append({"fn": "%s.prec = %s.prec" % (cname, cname), "args": v, "impl": (int(ctx.prec), int(ctx.dps)), "model": got})
            ctx.dps = v
            got = (int(ctx.prec), int(ctx.dps))
            want = (m_dps_to_prec(v), max(1, v))
            out["checks"] += 1
            out["cases"].append(["set_dps", v, got[0], got[1]])
            if got != want:
                out["failures"].append({"fn": "%s.dps = n" % cname, "args": v, "impl": got, "model": want})
            ctx.prec = got[0]
            out["checks"] += 1
            if (int(ctx.prec), int(ctx.dps)) != got:
                out["failures"].append({"fn": "%s.prec = %s.prec after dps" % (cname, cname), "args": v, "impl": (int(ctx.prec), int(ctx.dps)), "model": got})
        ctx.prec = save
    return out


if __name__ == "__main__":
    mode = sys.argv[1]
    if mode == "--list-public":
        json.dump(list_public(), sys.stdout)
    elif mode == "--run":
        job = json.load(open(sys.argv[2]))
        if ST is None:
            json.dump({"error": "fault-injection hook not active (MPMATH_VERIF=1 must be set before importing mpmath)"}, open(sys.argv[3], "w"))
            sys.exit(0)
        r = run_jobs(job)
        if job.get("special"):
            mp.prec = 53; iv.prec = 53
            r["special_result"] = special_tests(job)
            mp.prec = 53; iv.prec = 53
            r["model_result"] = model_tests(job)
        json.dump(r, open(sys.argv[3], "w"), default=str)
