# top-level build of the verification framework (offline). `make all` is a no-op when up to date.
COQMF=coq/Makefile.coq
VFILES=$(shell sed -n 's/^\([A-Za-z].*\.v\)$$/coq\/\1/p' coq/_CoqProject)
.PHONY: all coq clean subprojects
all: build/.coq_stamp extract/model_driver build/.sub_stamp
$(COQMF): coq/_CoqProject
	cd coq && coq_makefile -f _CoqProject -o Makefile.coq
coq: $(COQMF)
	$(MAKE) -C coq -f Makefile.coq -j16
build/.coq_stamp: $(VFILES) coq/_CoqProject
	$(MAKE) coq
	mkdir -p build && touch build/.coq_stamp
extract/model_driver: build/.coq_stamp extract/Extract.v extract/driver.ml
	cd extract && coqc -Q ../coq MP Extract.v > /dev/null
	cd extract && ocamlfind ocamlopt -w -a -package str model.mli model.ml driver.ml -o model_driver.tmp && mv -f model_driver.tmp model_driver
# independent Coq developments (own _CoqProject) built if present
SUBDIRS=coq_effects coq_qcheck coq_const coq_meta
SUBV=$(foreach d,$(SUBDIRS),$(wildcard $(d)/*.v $(d)/_CoqProject))
build/.sub_stamp: $(SUBV) build/.coq_stamp
	$(MAKE) subprojects
	mkdir -p build && touch build/.sub_stamp
subprojects:
	@for d in $(SUBDIRS); do \
	  if [ -f $$d/_CoqProject ]; then \
	    (cd $$d && ( [ -f Makefile.coq ] || coq_makefile -f _CoqProject -o Makefile.coq ) && $(MAKE) -f Makefile.coq -j8 > /dev/null) || exit 1; \
	  fi; done
clean:
	-$(MAKE) -C coq -f Makefile.coq clean
	rm -f coq/Makefile.coq coq/Makefile.coq.conf extract/model.ml extract/model.mli extract/*.cm* extract/*.o extract/model_driver extract/*.vo* extract/*.glob extract/.*.aux build/.coq_stamp build/.sub_stamp
	-for d in $(SUBDIRS); do if [ -f $$d/Makefile.coq ]; then $(MAKE) -C $$d -f Makefile.coq clean; rm -f $$d/Makefile.coq $$d/Makefile.coq.conf; fi; done
