# top-level build of the verification framework (offline)
COQMF=coq/Makefile.coq
.PHONY: all coq extract clean
all: coq extract
$(COQMF): coq/_CoqProject
	cd coq && coq_makefile -f _CoqProject -o Makefile.coq
coq: $(COQMF)
	$(MAKE) -C coq -f Makefile.coq -j16
extract: coq
	cd extract && coqc -Q ../coq MP Extract.v > /dev/null
	cd extract && ocamlfind ocamlopt -w -a -package str model.mli model.ml driver.ml -o model_driver
clean:
	-$(MAKE) -C coq -f Makefile.coq clean
	rm -f coq/Makefile.coq coq/Makefile.coq.conf extract/model.ml extract/model.mli extract/*.cm* extract/*.o extract/model_driver extract/*.vo* extract/*.glob extract/.*.aux
